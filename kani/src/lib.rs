//! Kani harnesses on the compiled crate (Engine K of DESIGN.md): the integer/float kernel layer
//! `impl EvalexprInt for i64`, `impl EvalexprNumericTypes for DefaultNumericTypes`, reached through public traits, at full bit width.
//! They serve C01 (no panic on compiled code, Kani's own overflow/bounds checks on), C03/C10 (kernel results against an i128 /
//! bit-level specification) and validate the integer std models of mirsym (the specification terms here are the models' formulas).
#![allow(dead_code)]
use evalexpr::*;

type N = DefaultNumericTypes;

fn is_err_named<T>(r: &EvalexprResult<T>, f: fn(&EvalexprError) -> bool) -> bool {
    match r {
        Err(e) => f(e),
        Ok(_) => false,
    }
}

#[cfg(kani)]
mod harnesses {
    use super::*;

    // ---------------------------------------------------------------- add / sub / mul / neg vs i128
    #[kani::proof]
    fn checked_add_matches_i128() {
        let a: i64 = kani::any();
        let b: i64 = kani::any();
        let wide = a as i128 + b as i128;
        let r = <i64 as EvalexprInt<N>>::checked_add(&a, &b);
        if wide >= i64::MIN as i128 && wide <= i64::MAX as i128 {
            kani::cover!(true, "in range");
            match &r {
                Ok(v) => assert!(*v as i128 == wide),
                Err(_) => assert!(false),
            }
        } else {
            kani::cover!(true, "overflow");
            assert!(is_err_named(&r, |e| matches!(e, EvalexprError::AdditionError { .. })));
        }
        std::mem::forget(r);
    }

    #[kani::proof]
    fn checked_sub_matches_i128() {
        let a: i64 = kani::any();
        let b: i64 = kani::any();
        let wide = a as i128 - b as i128;
        let r = <i64 as EvalexprInt<N>>::checked_sub(&a, &b);
        if wide >= i64::MIN as i128 && wide <= i64::MAX as i128 {
            kani::cover!(true, "in range");
            match &r {
                Ok(v) => assert!(*v as i128 == wide),
                Err(_) => assert!(false),
            }
        } else {
            kani::cover!(true, "overflow");
            assert!(is_err_named(&r, |e| matches!(e, EvalexprError::SubtractionError { .. })));
        }
        std::mem::forget(r);
    }

    #[kani::proof]
    fn checked_mul_matches_i128() {
        let a: i64 = kani::any();
        let b: i64 = kani::any();
        let wide = a as i128 * b as i128;
        let r = <i64 as EvalexprInt<N>>::checked_mul(&a, &b);
        if wide >= i64::MIN as i128 && wide <= i64::MAX as i128 {
            kani::cover!(true, "in range");
            match &r {
                Ok(v) => assert!(*v as i128 == wide),
                Err(_) => assert!(false),
            }
        } else {
            kani::cover!(true, "overflow");
            assert!(is_err_named(&r, |e| matches!(e, EvalexprError::MultiplicationError { .. })));
        }
        std::mem::forget(r);
    }

    #[kani::proof]
    fn checked_neg_matches_spec() {
        let a: i64 = kani::any();
        let r = <i64 as EvalexprInt<N>>::checked_neg(&a);
        if a == i64::MIN {
            assert!(is_err_named(&r, |e| matches!(e, EvalexprError::NegationError { .. })));
        } else {
            match &r {
                Ok(v) => assert!(*v as i128 == -(a as i128)),
                Err(_) => assert!(false),
            }
        }
        std::mem::forget(r);
    }

    // ---------------------------------------------------------------- div / rem: classification only (the 64-bit quotient does not get through CBMC, DESIGN 3.1)
    #[kani::proof]
    fn checked_div_rem_classification() {
        let a: i64 = kani::any();
        let b: i64 = kani::any();
        let bad = b == 0 || (a == i64::MIN && b == -1);
        let d = <i64 as EvalexprInt<N>>::checked_div(&a, &b);
        let m = <i64 as EvalexprInt<N>>::checked_rem(&a, &b);
        if bad {
            kani::cover!(b == 0, "zero divisor");
            kani::cover!(b == -1, "MIN / -1");
            assert!(is_err_named(&d, |e| matches!(e, EvalexprError::DivisionError { .. })));
            assert!(is_err_named(&m, |e| matches!(e, EvalexprError::ModulationError { .. })));
        } else {
            assert!(d.is_ok());
            assert!(m.is_ok());
        }
        std::mem::forget(d);
        std::mem::forget(m);
    }

    // small-width sanity of the truncation / sign convention (the same std routine, 8-bit operands embedded in i64)
    #[kani::proof]
    fn checked_div_rem_values_small() {
        let a8: i8 = kani::any();
        let b8: i8 = kani::any();
        kani::assume(b8 != 0);
        let (a, b) = (a8 as i64, b8 as i64);
        let d = <i64 as EvalexprInt<N>>::checked_div(&a, &b);
        let m = <i64 as EvalexprInt<N>>::checked_rem(&a, &b);
        if let (Ok(q), Ok(r)) = (&d, &m) {
            assert!(q * b + r == a);
            assert!(*r == 0 || ((*r < 0) == (a < 0)));
            assert!(r.unsigned_abs() < b.unsigned_abs());
        } else {
            assert!(false);
        }
        std::mem::forget(d);
        std::mem::forget(m);
    }

    // ---------------------------------------------------------------- abs, bit operations, shifts
    #[kani::proof]
    fn abs_matches_spec() {
        let a: i64 = kani::any();
        let r = <i64 as EvalexprInt<N>>::abs(&a);
        if a == i64::MIN {
            kani::cover!(true, "MIN");
            assert!(r.is_err());
        } else {
            match &r {
                Ok(v) => assert!(*v >= 0 && (*v == a || *v == -a)),
                Err(_) => assert!(false),
            }
        }
        std::mem::forget(r);
    }

    #[kani::proof]
    fn bit_operations_exact() {
        let a: i64 = kani::any();
        let b: i64 = kani::any();
        assert!(<i64 as EvalexprInt<N>>::bitand(&a, &b) == (a & b));
        assert!(<i64 as EvalexprInt<N>>::bitor(&a, &b) == (a | b));
        assert!(<i64 as EvalexprInt<N>>::bitxor(&a, &b) == (a ^ b));
        assert!(<i64 as EvalexprInt<N>>::bitnot(&a) == !a);
    }

    #[kani::proof]
    fn shifts_never_panic_and_are_exact_in_range() {
        let a: i64 = kani::any();
        let b: i64 = kani::any();
        let l = <i64 as EvalexprInt<N>>::bit_shift_left(&a, &b);
        let r = <i64 as EvalexprInt<N>>::bit_shift_right(&a, &b);
        kani::cover!(b >= 64, "amount beyond the width");
        kani::cover!(b < 0, "negative amount");
        if (0..64).contains(&b) {
            assert!(l == ((a as u64) << (b as u32)) as i64);
            assert!(r == a >> (b as u32));
        } else {
            // unclaimed value (C10), but it is the modulo-width shift mirsym models
            assert!(l == ((a as u64) << ((b & 63) as u32)) as i64);
            assert!(r == a >> ((b & 63) as u32));
        }
    }

    // ---------------------------------------------------------------- conversions
    #[kani::proof]
    fn usize_conversions() {
        let u: usize = kani::any();
        let r = <i64 as EvalexprInt<N>>::from_usize(u);
        if u <= i64::MAX as usize {
            match &r {
                Ok(v) => assert!(*v as usize == u && *v >= 0),
                Err(_) => assert!(false),
            }
        } else {
            assert!(is_err_named(&r, |e| matches!(e, EvalexprError::IntFromUsize { .. })));
        }
        std::mem::forget(r);
        let i: i64 = kani::any();
        let q = <i64 as EvalexprInt<N>>::into_usize(&i);
        if i >= 0 {
            match &q {
                Ok(v) => assert!(*v as i64 == i),
                Err(_) => assert!(false),
            }
        } else {
            assert!(is_err_named(&q, |e| matches!(e, EvalexprError::IntIntoUsize { .. })));
        }
        std::mem::forget(q);
    }

    #[kani::proof]
    fn float_as_int_saturates() {
        // model of the `as` cast used by mirsym (models.float_to_int_sat): NaN -> 0, saturation at the i64 range, truncation otherwise
        let f: f64 = kani::any();
        let i = <N as EvalexprNumericTypes>::float_as_int(&f);
        if f.is_nan() {
            assert!(i == 0);
        } else if f >= 9223372036854775808.0 {
            assert!(i == i64::MAX);
        } else if f <= -9223372036854775808.0 {
            assert!(i == i64::MIN);
        } else {
            kani::cover!(true, "in range");
            // truncation toward zero: |i| <= |f| < |i| + 1
            let back = i as f64;
            assert!(if f >= 0.0 { back <= f } else { back >= f });
        }
    }

    #[kani::proof]
    fn int_as_float_is_monotone_and_exact_below_2_53() {
        let a: i64 = kani::any();
        let f = <N as EvalexprNumericTypes>::int_as_float(&a);
        assert!(!f.is_nan() && f.is_finite());
        if a >= -(1i64 << 53) && a <= (1i64 << 53) {
            kani::cover!(true, "exactly representable range");
            assert!(f as i64 == a);
        }
    }
}
