// empty: this crate only makes cargo build serde (+derive) with the nightly toolchain used for MIR dumps
