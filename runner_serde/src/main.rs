// Native replay for C16: round trips through RON (the crate's own dev-dependency), line protocol on stdin.
//   node <hex expr>                         -> deserialize Node from the RON string literal of expr; compare with build_operator_tree
//   ctx <disabled 0|1> <with_fn 0|1> <name>=<value> ...   -> serialize, deserialize, compare
use evalexpr::*;
use std::io::BufRead;

fn unhex(s: &str) -> String {
    if s == "-" {
        return String::new();
    }
    let b: Vec<u8> = (0..s.len()).step_by(2).map(|i| u8::from_str_radix(&s[i..i + 2], 16).unwrap()).collect();
    String::from_utf8(b).unwrap()
}
fn hex(s: &str) -> String {
    if s.is_empty() {
        return "-".to_string();
    }
    s.bytes().map(|b| format!("{:02x}", b)).collect()
}
fn dec(s: &str) -> Value {
    let (v, rest) = dec_at(s);
    assert!(rest.is_empty());
    v
}
fn dec_at(s: &str) -> (Value, &str) {
    if let Some(r) = s.strip_prefix("T(") {
        let mut items = vec![];
        let mut rest = r;
        loop {
            if let Some(r2) = rest.strip_prefix(')') {
                return (Value::Tuple(items), r2);
            }
            let (v, r2) = dec_at(rest);
            items.push(v);
            rest = r2.strip_prefix(',').unwrap_or(r2);
        }
    }
    let end = s.find(|c| c == ',' || c == ')').unwrap_or(s.len());
    let (tok, rest) = s.split_at(end);
    let v = if tok == "E" {
        Value::Empty
    } else if let Some(x) = tok.strip_prefix("I:") {
        Value::Int(x.parse().unwrap())
    } else if let Some(x) = tok.strip_prefix("F:") {
        Value::Float(f64::from_bits(u64::from_str_radix(x, 16).unwrap()))
    } else if let Some(x) = tok.strip_prefix("B:") {
        Value::Boolean(x == "1")
    } else if let Some(x) = tok.strip_prefix("S:") {
        Value::String(unhex(x))
    } else {
        panic!("bad value {:?}", tok)
    };
    (v, rest)
}
fn same(a: &Value, b: &Value) -> bool {
    match (a, b) {
        (Value::Float(x), Value::Float(y)) => x.to_bits() == y.to_bits() || (f64::is_nan(*x) && f64::is_nan(*y)),
        (Value::Tuple(x), Value::Tuple(y)) => x.len() == y.len() && x.iter().zip(y).all(|(p, q)| same(p, q)),
        _ => a == b,
    }
}

fn main() {
    for line in std::io::stdin().lock().lines() {
        let line = line.unwrap();
        let parts: Vec<&str> = line.split(' ').collect();
        match parts[0] {
            "node" => {
                let expr = unhex(parts[1]);
                let ron_text = ron::to_string(&expr).unwrap();
                let de: Result<Node, _> = ron::from_str(&ron_text);
                let built = build_operator_tree::<DefaultNumericTypes>(&expr);
                let verdict = match (&de, &built) {
                    (Ok(a), Ok(b)) => a == b,
                    (Err(e), Err(b)) => e.code.to_string().contains(&b.to_string()),
                    _ => false,
                };
                println!("node {} de={} built={}", if verdict { "same" } else { "DIFF" }, hex(&format!("{:?}", de.as_ref().map(|n| n.to_string()).map_err(|e| e.code.to_string()))),
                         hex(&format!("{:?}", built.as_ref().map(|n| n.to_string()).map_err(|e| e.to_string()))));
            },
            "ctx" => {
                let mut ctx = HashMapContext::<DefaultNumericTypes>::new();
                let mut vars = vec![];
                for p in parts[3..].iter().filter(|p| !p.is_empty()) {
                    let (n, v) = p.split_once('=').unwrap();
                    let v = dec(v);
                    ctx.set_value(unhex(n), v.clone()).unwrap();
                    vars.push((unhex(n), v));
                }
                if parts[2] == "1" {
                    ctx.set_function("f".to_string(), Function::new(|a| Ok(a.clone()))).unwrap();
                }
                ctx.set_builtin_functions_disabled(parts[1] == "1").unwrap();
                let text = match ron::to_string(&ctx) {
                    Ok(t) => t,
                    Err(e) => {
                        println!("ctx DIFF serialize-error {}", hex(&e.to_string()));
                        continue;
                    },
                };
                let back: Result<HashMapContext, _> = ron::from_str(&text);
                match back {
                    Err(e) => println!("ctx DIFF deserialize-error {} text={}", hex(&e.to_string()), hex(&text)),
                    Ok(b) => {
                        let mut ok = b.are_builtin_functions_disabled() == (parts[1] == "1");
                        let mut names: Vec<String> = b.iter_variable_names().collect();
                        names.sort();
                        let mut want: Vec<String> = vars.iter().map(|(n, _)| n.clone()).collect();
                        want.sort();
                        ok = ok && names == want;
                        for (n, v) in &vars {
                            ok = ok && b.get_value(n).map(|x| same(x, v)).unwrap_or(false);
                        }
                        // no functions: the user function `f` must be unknown afterwards
                        if parts[2] == "1" {
                            ok = ok && matches!(b.call_function("f", &Value::Int(1)), Err(EvalexprError::FunctionIdentifierNotFound(_)));
                        }
                        println!("ctx {} disabled={} text={}", if ok { "same" } else { "DIFF" }, b.are_builtin_functions_disabled(), hex(&text));
                    },
                }
            },
            _ => {},
        }
    }
}
