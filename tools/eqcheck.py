#!/usr/bin/env python3
"""Behaviour-preserving changes (refactorings from sub-agents): every check must stay quiet on them.
  eqcheck.py confirm <srcdir> <name>     : patch applies on /repo HEAD, suite green -> store under /verif/equiv/<name>/
  eqcheck.py run <name> [ID ...]         : run the checks selected by the touched files (or the given ids) with VERIF_REPO=<scratch worktree + patch>;
                                           record exit codes in equiv/<name>/meta.json (expected: all 0)
"""
import sys, os, subprocess, json, shutil, time, re
VERIF = os.path.dirname(os.path.dirname(os.path.abspath(__file__)))
SCR = os.environ.get('EQ_SCRATCH', '/tmp/wt/eqrepo')
ENV = dict(os.environ, CARGO_NET_OFFLINE='true')
BY_FILE = [
    ('src/token/', ['C06', 'C07', 'C01']),
    ('src/tree/iter.rs', ['C14']),
    ('src/tree/', ['C02', 'C05', 'C13', 'C08']),
    ('src/operator/', ['C03', 'C04', 'C09', 'C11', 'C14', 'C08']),
    ('src/function/', ['C10', 'C09']),
    ('src/context/', ['C04', 'C09', 'C11']),
    ('src/interface/', ['C12']),
    ('src/value/', ['C03', 'C10', 'C12', 'C04']),
    ('src/error/', ['C01']),
]


def sh(cmd, cwd=None, timeout=3600):
    r = subprocess.run(cmd, shell=True, cwd=cwd, capture_output=True, text=True, env=ENV, timeout=timeout)
    return r.returncode, (r.stdout + r.stderr)


def scratch():
    if not os.path.isdir(SCR):
        rc, out = sh('git -C /repo worktree add -q --detach %s HEAD' % SCR)
        assert rc == 0, out
    sh('git checkout -q --detach $(git -C /repo rev-parse HEAD) && git checkout -- . && git clean -fdq -e target', cwd=SCR)


def confirm(src, name):
    scratch()
    patch = os.path.join(src, 'patch.diff')
    rc, out = sh('git apply --check %s' % patch, cwd=SCR)
    if rc != 0:
        print('%s: patch does not apply: %s' % (name, out[-300:]))
        return False
    sh('git apply %s' % patch, cwd=SCR)
    rc, out = sh('cargo test --offline 2>&1 | grep -E "^test result|FAILED|^error|^warning: unused" ', cwd=SCR)
    ok = ('FAILED' not in out) and ('error' not in out) and ('test result: ok' in out)
    print('%s: suite %s' % (name, 'green' if ok else 'NOT green: ' + out[-300:]))
    sh('git checkout -- .', cwd=SCR)
    if ok:
        dst = os.path.join(VERIF, 'equiv', name)
        os.makedirs(dst, exist_ok=True)
        shutil.copy(patch, os.path.join(dst, 'patch.diff'))
        meta = json.load(open(os.path.join(src, 'meta.json')))
        meta['confirmed'] = 'patch applies on /repo %s; cargo test --offline green with it' % sh('git -C /repo rev-parse --short HEAD')[1].strip()
        meta.setdefault('checks', {})
        json.dump(meta, open(os.path.join(dst, 'meta.json'), 'w'), indent=1)
    return ok


def run(name, ids):
    dst = os.path.join(VERIF, 'equiv', name)
    patch = os.path.join(dst, 'patch.diff')
    meta = json.load(open(os.path.join(dst, 'meta.json')))
    if not ids:
        files = re.findall(r'^\+\+\+ b/(\S+)', open(patch).read(), re.M)
        ids = [meta.get('property')]
        for f in files:
            for pref, lst in BY_FILE:
                if f.startswith(pref):
                    ids += lst
                    break
        ids = [i for n, i in enumerate(ids) if i and i not in ids[:n]]
    scratch()
    rc, out = sh('git apply %s' % patch, cwd=SCR)
    assert rc == 0, out
    try:
        for pid in ids:
            t0 = time.time()
            rc, out = sh('VERIF_NO_KANI=1 VERIF_REPO=%s VERIF_WORK=%s-work ./check %s --tier quick' % (SCR, SCR.rstrip('/'), pid), cwd=VERIF)
            notes = [l.strip()[:400] for l in out.split('\n') if l.startswith('VIOLATION') or 'INCONCLUSIVE' in l or 'NOT-REPRODUCED' in l or l.strip().startswith('witness:')][:4]
            meta['checks'][pid] = dict(exit=rc, seconds=round(time.time() - t0), notes=notes)
            print('%s under %s: exit %d %s' % (name, pid, rc, (' | ' + notes[0]) if notes else ''), flush=True)
    finally:
        sh('git checkout -- .', cwd=SCR)
        json.dump(meta, open(os.path.join(dst, 'meta.json'), 'w'), indent=1)


if __name__ == '__main__':
    if sys.argv[1] == 'confirm':
        sys.exit(0 if confirm(sys.argv[2], sys.argv[3]) else 1)
    elif sys.argv[1] == 'run':
        run(sys.argv[2], sys.argv[3:])
