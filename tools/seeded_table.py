#!/usr/bin/env python3
"""print the markdown table of seeded changes vs checks from seeded/*/meta.json"""
import json, glob, os
V = os.path.dirname(os.path.dirname(os.path.abspath(__file__)))
print('| seeded change | what it does | needs | caught by (exit 1, replayed) | ran and passed (exit 0) |')
print('|---|---|---|---|---|')
for d in sorted(glob.glob(os.path.join(V, 'seeded', '*'))):
    m = json.load(open(os.path.join(d, 'meta.json')))
    ch = m.get('checks', {})
    caught = ', '.join(sorted(p for p, v in ch.items() if v['exit'] == 1)) or '—'
    passed = ', '.join(sorted(p for p, v in ch.items() if v['exit'] == 0)) or '—'
    inc = ', '.join(sorted(p for p, v in ch.items() if v['exit'] not in (0, 1)))
    s = m.get('summary', '').replace('|', '\\|').replace('\n', ' ')[:160]
    n = m.get('needs', '').replace('|', '\\|').replace('\n', ' ')[:140]
    print('| %s | %s | %s | %s | %s%s |' % (os.path.basename(d), s, n, caught, passed, (' ; inconclusive: ' + inc) if inc else ''))
