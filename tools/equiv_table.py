#!/usr/bin/env python3
"""markdown table of the behaviour-preserving changes (equiv/*/meta.json) and what the checks said about them"""
import json, glob, os
V = os.path.dirname(os.path.dirname(os.path.abspath(__file__)))
print('| change | what was rewritten | checks run (all must exit 0) | non-zero exits |')
print('|---|---|---|---|')
for d in sorted(glob.glob(os.path.join(V, 'equiv', '*'))):
    m = json.load(open(os.path.join(d, 'meta.json')))
    ch = m.get('checks', {})
    okc = ', '.join(sorted(p for p, v in ch.items() if v['exit'] == 0)) or '—'
    bad = '; '.join('%s: exit %d' % (p, v['exit']) for p, v in sorted(ch.items()) if v['exit'] != 0) or '—'
    s = m.get('summary', '').replace('|', '\\|').replace('\n', ' ')[:170]
    print('| %s | %s | %s | %s |' % (os.path.basename(d), s, okc, bad))
