#!/bin/bash
# round6.sh <ID>: confirm both candidates of property ID in the agent's (finished) worktree, then run the property's quick check against each in a scratch worktree
id=$1
cd /verif
for k in 1 2; do
  src=/tmp/wt/out6/$id/m$k
  [ -f $src/patch.diff ] && [ -f $src/demo.rs ] && [ -f $src/meta.json ] || { echo "R6-$id-m$k: incomplete deliverable"; continue; }
  CONFIRM_SCR=/tmp/wt/R6$id python3 tools/mutant.py confirm $src R6-$id-m$k || continue
  MUTANT_SCRATCH=/tmp/wt/m6$id python3 tools/mutant.py scratchcheck R6-$id-m$k $id
done
git -C /repo worktree remove --force /tmp/wt/m6$id 2>/dev/null; rm -rf /tmp/wt/m6$id-work
