#!/usr/bin/env python3
"""Seeded-change bookkeeping.
  mutant.py confirm <srcdir> <name>   : confirm a candidate (patch.diff, demo.rs, meta.json) in a scratch worktree of /repo HEAD and,
                                        if it holds (suite green with patch, demo fails with patch, demo passes without), store it as /verif/seeded/<name>/
  mutant.py check <name> <ID> [...]   : apply seeded/<name>/patch.diff to /repo, run ./check <ID> (quick), undo; append the outcome to seeded/<name>/meta.json
"""
import sys, os, subprocess, json, shutil, time
VERIF = os.path.dirname(os.path.dirname(os.path.abspath(__file__)))
SCR = os.environ.get('CONFIRM_SCR', '/tmp/wt/confirm')
ENV = dict(os.environ, CARGO_NET_OFFLINE='true')


def sh(cmd, cwd=None, timeout=1800):
    r = subprocess.run(cmd, shell=True, cwd=cwd, capture_output=True, text=True, env=ENV, timeout=timeout)
    return r.returncode, (r.stdout + r.stderr)


def confirm(src, name):
    if not os.path.isdir(SCR):
        rc, out = sh('git -C /repo worktree add -q --detach %s HEAD' % SCR)
        assert rc == 0, out
    sh('git checkout -q --detach $(git -C /repo rev-parse HEAD) && git checkout -- . && git clean -fdq -e target', cwd=SCR)
    patch = os.path.join(src, 'patch.diff')
    log = []
    rc, out = sh('git apply --check %s' % patch, cwd=SCR)
    if rc != 0:
        print('%s: patch does not apply on /repo HEAD: %s' % (name, out[-300:]))
        return False
    sh('git apply %s' % patch, cwd=SCR)
    feat = ' --features serde' if 'feature = "serde"' in open(os.path.join(src, 'demo.rs')).read() else ''
    rc, out = sh('(cargo test --offline 2>&1; %s) | grep -E "^test result|FAILED|^error" ' % ('cargo test --offline --features serde 2>&1' if feat else 'true'), cwd=SCR)
    suite_ok = ('FAILED' not in out) and ('error' not in out) and ('test result: ok' in out)
    log.append('suite with patch: %s' % ('green' if suite_ok else 'NOT green: ' + out[-300:]))
    shutil.copy(os.path.join(src, 'demo.rs'), os.path.join(SCR, 'tests', 'demo_seed.rs'))
    rc1, out1 = sh('cargo test --offline%s --test demo_seed 2>&1 | tail -5' % feat, cwd=SCR)
    demo_fails = 'FAILED' in out1 or 'failed' in out1
    log.append('demo with patch: %s' % ('fails' if demo_fails else 'passes (unexpected)'))
    sh('git apply -R %s' % patch, cwd=SCR)
    rc2, out2 = sh('cargo test --offline%s --test demo_seed 2>&1 | tail -5' % feat, cwd=SCR)
    demo_passes = 'test result: ok' in out2
    log.append('demo without patch: %s' % ('passes' if demo_passes else 'fails (unexpected): ' + out2[-300:]))
    os.remove(os.path.join(SCR, 'tests', 'demo_seed.rs'))
    ok = suite_ok and demo_fails and demo_passes
    print('%s: %s | %s' % (name, 'CONFIRMED' if ok else 'REJECTED', ' ; '.join(log)))
    if ok:
        dst = os.path.join(VERIF, 'seeded', name)
        os.makedirs(dst, exist_ok=True)
        shutil.copy(patch, os.path.join(dst, 'patch.diff'))
        shutil.copy(os.path.join(src, 'demo.rs'), os.path.join(dst, 'demo.rs'))
        meta = json.load(open(os.path.join(src, 'meta.json')))
        head = sh('git -C /repo rev-parse --short HEAD')[1].strip()
        meta['confirmed'] = dict(base_commit=head, ran=['git apply patch.diff (scratch worktree of /repo HEAD)', 'cargo test --offline  -> all green',
                                                           'cargo test --offline --test demo_seed -> fails with patch', 'git apply -R; cargo test --offline --test demo_seed -> passes'],
                                 log=log)
        meta.setdefault('checks', {})
        json.dump(meta, open(os.path.join(dst, 'meta.json'), 'w'), indent=1)
    return ok


def check(name, ids, scratch=None):
    """scratch=None: the documented flow (git -C /repo apply; ./check; git -C /repo checkout -- .).  scratch=<dir>: the same checks run with
    VERIF_REPO pointing at a scratch worktree of /repo HEAD with the patch applied (lets the matrix run while /repo is in use)"""
    dst = os.path.join(VERIF, 'seeded', name)
    patch = os.path.join(dst, 'patch.diff')
    repo = scratch or '/repo'
    if scratch:
        if not os.path.isdir(scratch):
            rc, out = sh('git -C /repo worktree add -q --detach %s HEAD' % scratch)
            assert rc == 0, out
        sh('git checkout -q --detach $(git -C /repo rev-parse HEAD) && git checkout -- . && git clean -fdq', cwd=scratch)
    rc, out = sh('git -C %s status --porcelain' % repo)
    assert out.strip() == '', '%s is not clean: %s' % (repo, out)
    rc, out = sh('git -C %s apply %s' % (repo, patch))
    assert rc == 0, out
    meta = json.load(open(os.path.join(dst, 'meta.json')))
    env = ''
    if scratch:
        env = 'VERIF_REPO=%s VERIF_WORK=%s ' % (scratch, scratch.rstrip('/') + '-work')
    try:
        for pid in ids:
            t0 = time.time()
            rc, out = sh(env + './check %s --tier quick' % pid, cwd=VERIF, timeout=3600)
            vio = [l for l in out.split('\n') if l.startswith('VIOLATION')]
            wit = [l.strip() for l in out.split('\n') if l.strip().startswith('witness:')]
            meta['checks'][pid] = dict(exit=rc, ran=('scratch worktree via VERIF_REPO' if scratch else 'git -C /repo apply; ./check; git -C /repo checkout -- .'), violation_lines=len(vio), first_witness=(wit[0] if wit else None), seconds=round(time.time() - t0),
                                       summary=[l for l in out.split('\n') if l.startswith(pid + ' tier=')][-1:] )
            print('%s under %s: exit %d, %d VIOLATION lines %s' % (name, pid, rc, len(vio), wit[0] if wit else ''))
    finally:
        sh('git -C %s checkout -- .' % repo)
        json.dump(meta, open(os.path.join(dst, 'meta.json'), 'w'), indent=1)


if __name__ == '__main__':
    if sys.argv[1] == 'confirm':
        sys.exit(0 if confirm(sys.argv[2], sys.argv[3]) else 1)
    elif sys.argv[1] == 'check':
        check(sys.argv[2], sys.argv[3:])
    elif sys.argv[1] == 'scratchcheck':
        check(sys.argv[2], sys.argv[3:], scratch=os.environ.get('MUTANT_SCRATCH', '/tmp/wt/mrepo'))
