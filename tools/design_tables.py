#!/usr/bin/env python3
"""(re)generate the tables of DESIGN.md 8.7 / 8.8 between markers from seeded/*/meta.json and equiv/*/meta.json"""
import json, glob, os, re, subprocess, sys
V = os.path.dirname(os.path.dirname(os.path.abspath(__file__)))
p = os.path.join(V, 'DESIGN.md')
c = open(p).read()


def block(name, text):
    global c
    b, e = '<!-- %s:begin -->' % name, '<!-- %s:end -->' % name
    if '@@%s@@' % name in c:
        c = c.replace('@@%s@@' % name, b + '\n' + text + '\n' + e)
    else:
        i, j = c.index(b), c.index(e)
        c = c[:i] + b + '\n' + text + '\n' + c[j:]


seeded = subprocess.run([sys.executable, os.path.join(V, 'tools', 'seeded_table.py')], capture_output=True, text=True).stdout.strip()
equiv = subprocess.run([sys.executable, os.path.join(V, 'tools', 'equiv_table.py')], capture_output=True, text=True).stdout.strip()
tot = own = other = none_ = 0
only_other, missed, inconc = [], [], []
for d in sorted(glob.glob(os.path.join(V, 'seeded', '*'))):
    m = json.load(open(os.path.join(d, 'meta.json')))
    n = os.path.basename(d)
    prop = m.get('property')
    ch = m.get('checks', {})
    caught = [k for k, v in ch.items() if v['exit'] == 1]
    tot += 1
    if prop in caught:
        own += 1
    elif caught:
        other += 1
        only_other.append('%s (by %s)' % (n, ', '.join(sorted(caught))))
    else:
        none_ += 1
        missed.append(n)
    inconc += ['%s under %s' % (n, k) for k, v in ch.items() if v['exit'] not in (0, 1)]
summ = '**Summary.** %d seeded changes; %d are caught (exit 1, counterexample replayed natively) by the check of the property they were written against' % (tot, own)
if other:
    summ += ', %d only by the check of a neighbouring property whose mechanism they actually touch: %s' % (other, '; '.join(only_other))
summ += '; %d are caught by no check%s.' % (none_, (': ' + ', '.join(missed)) if missed else '')
if inconc:
    summ += ' Inconclusive runs (exit 2, never counted as a pass): %s.' % '; '.join(inconc)
etot = ebad = 0
for d in sorted(glob.glob(os.path.join(V, 'equiv', '*'))):
    m = json.load(open(os.path.join(d, 'meta.json')))
    for k, v in m.get('checks', {}).items():
        etot += 1
        ebad += v['exit'] != 0
equiv += '\n\n%d check runs on %d behaviour-preserving changes; %d with a non-zero exit code in the last recorded run.' % (etot, len(glob.glob(os.path.join(V, 'equiv', '*'))), ebad)
cost = subprocess.run([sys.executable, os.path.join(V, 'tools', 'cost_table.py')], capture_output=True, text=True).stdout.strip()
block('COST_TABLE', cost)
block('SEEDED_TABLE', seeded)
block('SEEDED_SUMMARY', summ)
block('EQUIV_TABLE', equiv)
open(p, 'w').write(c)
print(summ)
