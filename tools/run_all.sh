#!/bin/bash
# run every check (tier from $1, default quick) on the current /repo tree; print one summary line per check
cd "$(dirname "$0")/.."
tier="${1:-quick}"
for id in C01 C02 C03 C04 C05 C06 C07 C08 C09 C10 C11 C12 C13 C14 C16; do
  start=$(date +%s)
  out=$(./check $id --tier $tier 2>&1); rc=$?
  end=$(date +%s)
  echo "$id exit=$rc $((end-start))s :: $(echo "$out" | grep "^$id tier=" | tail -1 | cut -c1-220)"
  echo "$out" | grep -E '^VIOLATION|^KNOWN-FINDING|INCONCLUSIVE|NOT-REPRODUCED' | head -5
done
