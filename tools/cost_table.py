#!/usr/bin/env python3
"""markdown table of what each check covered in its last run, from evidence/*.json (written by the checks themselves)"""
import json, glob, os
V = os.path.dirname(os.path.dirname(os.path.abspath(__file__)))
NOTES = {
    'C01': 'builtins × argument shapes, 32 operator variants × 3 context kinds, all kind sequences ≤ 4 + families, tokenizer ≤ 3 free chars + templates, Display of everything (errors with long / multi-byte payloads replayed natively); overflow checks on and off; Kani kernels',
    'C02': 'well-formed skeletons ≤ 7 tokens, every operator slot symbolic; chains mixing `=` and op-assign',
    'C03': '16 operators × 10×10 operand shapes × 2 overflow settings; Kani kernels',
    'C04': 'one inductive step per (pre-state shape, operation) incl. clone_from, clear*, switch; C08 step on the mutable evaluator',
    'C05': 'sequence skeletons ≤ 7 tokens (one obligation per path and separator assignment); C08 step for Tuple/Chain/RootNode',
    'C06': 'strings ≤ 3 free chars × 3 quoting shapes, 1–20 dec / 1–17 hex digits, float/embedding templates, words ≤ 3',
    'C07': 'all token pairs + triples × gap fillings (empty wherever no fusion can occur), every whitespace char symbolic, comment bodies ≤ 3',
    'C08': 'inductive step: 35 operators × k ≤ 3 children × 10 child kinds; bounded tree walk: all shapes ≤ 5 nodes × rotated operators',
    'C09': '52 names × context configurations (direct, clone, clone_from, clear*, switch set through the API), classification behind 6 left contexts, call forms',
    'C10': '49 builtins (+3 non-builtin names) × argument shapes × 2 overflow settings; exact trim',
    'C11': 'operator-level equivalence + assignments under shared contexts + default set_value on a havoc user context + C08 step on both evaluators',
    'C12': '45 wrappers (concrete and symbolic subject text) + 3 compositions against havoc stubs incl. precompilation; persistent-state invariant',
    'C13': 'all kind sequences ≤ 4, planted defects, operand- and operator-juxtaposition families; arity units; C08 step',
    'C14': 'forests ≤ 4 nodes × labellings × 10 iterators; name-origin units (32 operators), assignment-target units, classification units',
    'C16': 'Node::deserialize against a havoc build_operator_tree; HashMapContext serialize → deserialize for 0..3 variables × 2 format models; 102 native RON round trips',
}
print('| id | units | paths | obligations | discharged | known-finding hits | wall (this run) | what |')
print('|----|------:|------:|------:|------:|------:|-----:|------|')
for f in sorted(glob.glob(os.path.join(V, 'evidence', 'C*.json'))):
    e = json.load(open(f))
    c = e['coverage']
    pid = e['property_id']
    print('| %s | %s | %s | %s | %s | %s | %.0f s | %s |' % (pid, c.get('units'), c.get('evaluations'), c.get('obligations'), c.get('discharged'),
                                                         c.get('sat', 0), e.get('wall_s', 0), NOTES.get(pid, '')))
