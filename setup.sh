#!/bin/bash
# Run once after a fresh restore, offline: build the native replay runner (dev + release) and the MIR front end cache,
# then run the translator validation (mirsym concrete mode vs native crate on the repo's own test expressions).
set -e -o pipefail
cd "$(dirname "$0")"
export CARGO_NET_OFFLINE=true
mkdir -p .work evidence replays
python3-vt - <<'PY'
import sys
sys.path.insert(0, 'mirsym')
import frontend, replay
for ofc in (True, False):
    frontend.load(overflow_checks=ofc)
replay.build('dev'); replay.build('release')
print('front end + runner built')
# C16: serde (+derive) for the nightly toolchain, the crate's MIR with the serde feature, and the native RON runner
frontend.load(overflow_checks=True, features='serde')
import serde_replay
for prof in ('dev', 'release'):
    exe, msg = serde_replay.build(prof)
    if exe is None:
        raise SystemExit('serde runner build failed: %s' % msg)
print('serde front end + RON runner built')
PY
python3-vt mirsym/validate.py | tail -3
python3-vt mirsym/validate_models.py | tail -5
