"""Translator validation (DESIGN 3.6): run mirsym in concrete mode on every expression string harvested from
the repository's own tests / README, end to end through the public `eval`, and compare with the native crate."""
import re, sys, os, time, json, multiprocessing as mp
import frontend, replay
from harness import *

def harvest(repo=frontend.REPO):
    out = []
    for f in ('tests/integration.rs', 'README.md', 'src/lib.rs'):
        p = os.path.join(repo, f)
        if not os.path.exists(p):
            continue
        text = open(p, encoding='utf-8').read()
        for m in re.finditer(r'\b(?:eval\w*|build_operator_tree(?:::<\w+>)?)\(\s*(r#*)?"', text):
            i = m.end()
            if m.group(1):
                close = '"' + '#' * (len(m.group(1)) - 1)
                j = text.find(close, i)
                if j < 0:
                    continue
                s = text[i:j]
            else:
                j = i
                buf = []
                ok = True
                while j < len(text) and text[j] != '"':
                    if text[j] == '\\':
                        n = text[j + 1]
                        mp_ = {'n': '\n', 't': '\t', 'r': '\r', '\\': '\\', '"': '"', "'": "'", '0': '\0'}
                        if n in mp_:
                            buf.append(mp_[n]); j += 2
                        elif n == 'u':
                            k = text.index('}', j)
                            buf.append(chr(int(text[j + 3:k], 16))); j = k + 1
                        elif n == '\n':
                            j += 2
                            while text[j] in ' \t\n':
                                j += 1
                        else:
                            ok = False; break
                    else:
                        buf.append(text[j]); j += 1
                if not ok:
                    continue
                s = ''.join(buf)
            if len(s) <= 120:
                out.append(s)
    seen = set(); res = []
    for s in out:
        if s not in seen:
            seen.add(s); res.append(s)
    return res

_C = None
def _init(ofc):
    global _C
    _C = Ctx(frontend.load(overflow_checks=ofc), overflow_checks=ofc)

def _one(e):
    p = _C.p
    try:
        ex, outs = _C.run('eval', lambda st: [ref_to(st, sstr(e))])
    except Unsupported as u:
        return (e, 'unsupported', '%s @ %s' % (u, getattr(u, 'where', None)))
    except Exception as x:
        return (e, 'crash', repr(x)[:200])
    if len(outs) != 1:
        return (e, 'paths', len(outs))
    o = outs[0]
    if o.kind == 'panic':
        return (e, 'panic', o.value)
    return (e, 'ok', render_result(p.meta, o.value))

def native(exprs, profile):
    text = ''.join(replay.case_text('c%d' % i, 'eval', e) for i, e in enumerate(exprs))
    out = replay.run_cases(text, profile)
    res = []
    for i, e in enumerate(exprs):
        c = out.get('c%d' % i, {})
        if 'panic' in c:
            res.append(('panic', c['panic']))
        elif 'result' in c:
            r = c['result']
            res.append(('Ok', r[1]) if r[0] == 'Ok' else ('Err', r[1]))
        else:
            res.append(('?', c))
    return res

def main(extra=()):
    exprs = harvest() + list(extra)
    t0 = time.time()
    bad = 0; unsup = 0; n = 0
    details = []
    for ofc, profile in ((True, 'dev'), (False, 'release')):
        frontend.load(overflow_checks=ofc)
        nat = native(exprs, profile)
        with mp.Pool(min(16, os.cpu_count() or 4), initializer=_init, initargs=(ofc,)) as pool:
            sym = pool.map(_one, exprs, chunksize=4)
        for (e, kind, val), nv in zip(sym, nat):
            n += 1
            if kind == 'unsupported':
                unsup += 1; details.append((profile, e, 'UNSUPPORTED', val)); continue
            if kind == 'ok':
                mine = val if val[0] == 'Ok' else ('Err', val[1])
                agree = (mine == nv)
            elif kind == 'panic':
                agree = nv[0] == 'panic'
            else:
                agree = False
            if not agree:
                bad += 1; details.append((profile, e, (kind, val), nv))
    return dict(expressions=len(exprs), comparisons=n, disagreements=bad, unsupported=unsup, seconds=time.time() - t0, details=details)

if __name__ == '__main__':
    r = main()
    for d in r['details'][:60]:
        print(d)
    print({k: v for k, v in r.items() if k != 'details'})
    sys.exit(1 if r['disagreements'] or r['unsupported'] else 0)
