"""Contexts for the checks: user functions implemented by the harness, pre-state builders, state comparison."""
import z3
from values import *
from harness import *
from shapes import *


def user_function(C, st, name, behaviour='marker'):
    """Function value whose call logs (name, argument copy) and returns Ok(String "result of <name>") / the argument / an error"""
    def fn(ex, st_, rest):
        arg = ex.deref_all(rest[0])
        st_.log.append(('user', name, copy_value(arg)))
        if behaviour == 'marker':
            return ok(C.v_str('result of ' + name))
        if behaviour == 'identity':
            return ok(copy_value(arg))
        if behaviour == 'notfound_other':
            # a user function that itself reports an unknown function under another name (e.g. a dispatcher evaluating a nested call)
            return err(Adt('EvalexprError', C.VI('EvalexprError', 'FunctionIdentifierNotFound'), [sstr('inner_' + name)]))
        return err(Adt('EvalexprError', C.VI('EvalexprError', 'CustomMessage'), [sstr('fail:' + name)]))
    return Adt('Function', 0, [BoxV(st.new_cell(PyFn(fn, '%s:%s' % (name, behaviour))))])


def build_context(C, st, variables=(), functions=(), disabled=False):
    """variables: [(name, value)], functions: [(name, behaviour)]"""
    fs = [(n, user_function(C, st, n, b)) for n, b in functions]
    return C.hashmap_context(variables=list(variables), functions=fs, disabled=disabled)


def ctx_fields(C, cv):
    names = C.meta.structs['HashMapContext']
    return dict(zip(names, cv.fields))


def map_equal_terms(C, m, expected):
    """z3 Bool: association list m (HashMapV with concrete keys) equals dict name -> spec (as a map: order-insensitive)"""
    keys = [k.concrete() for k in m.keys]
    if None in keys or len(set(keys)) != len(keys) or set(keys) != set(expected):
        return z3.BoolVal(False)
    cs = []
    for k, v in zip(keys, m.vals):
        cs.append(value_matches_spec(C.meta, v, expected[k]))
    return z3.And(*cs) if cs else z3.BoolVal(True)
