"""concrete-mode smoke test: eval(string) through the MIR"""
import sys, time, traceback
import frontend
from harness import *
p = frontend.load()
C = Ctx(p)
exprs = sys.argv[1:] or ['1 + 2', 'a = 5; a * 2', '(1, 2.5, "x")', 'max(1, 2, 3)', '1 + 2 * 3 ^ 2', 'str::from(5)', 'true && !false', 'if(1 < 2, "a", "b")', '"ab" + "cd"', 'len("abc")', 'math::sqrt(4)', 'x = 1; x += 2; x']
for e in exprs:
    t0 = time.time()
    try:
        ex, outs = C.run('eval', lambda st: [ref_to(st, sstr(e))])
        for o in outs:
            print('%-28r -> %s %s  (%.2fs, %d steps)' % (e, o.kind, render_result(p.meta, o.value) if o.kind == 'return' else o.value, time.time() - t0, o.state.steps))
    except Unsupported as u:
        print('%-28r -> UNSUPPORTED %s @ %s' % (e, u, getattr(u, 'where', None)))
    except Exception as x:
        print('%-28r -> CRASH' % e); traceback.print_exc()
