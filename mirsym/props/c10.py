"""C10 — builtin functions compute what the documentation says (and, shared with C01, never panic).

Unit: Operator::eval(FunctionIdentifier{name}, [arg], EmptyContextWithBuiltinFunctions) -> builtin_function(name) -> closure,
all from MIR, for each of the builtin names and each argument shape up to arity 3 with every payload a solver variable."""
import sys, os, time, random, itertools, zlib
import z3
sys.path.insert(0, os.path.dirname(os.path.dirname(os.path.abspath(__file__))))
import frontend, checklib, replay, models
from harness import *
from shapes import *
from engine import identical

PID = 'C10'
MATH1 = {'math::ln': 'ln', 'math::log2': 'log2', 'math::log10': 'log10', 'math::exp': 'exp', 'math::exp2': 'exp2', 'math::cos': 'cos',
         'math::acos': 'acos', 'math::cosh': 'cosh', 'math::acosh': 'acosh', 'math::sin': 'sin', 'math::asin': 'asin', 'math::sinh': 'sinh',
         'math::asinh': 'asinh', 'math::tan': 'tan', 'math::atan': 'atan', 'math::tanh': 'tanh', 'math::atanh': 'atanh', 'math::sqrt': 'sqrt',
         'math::cbrt': 'cbrt'}
MATH2 = {'math::log': 'log', 'math::pow': 'powf', 'math::atan2': 'atan2', 'math::hypot': 'hypot'}
ROUND = {'floor': z3.RTN(), 'ceil': z3.RTP(), 'round': z3.RNA()}
FLOAT_IS = ['math::is_nan', 'math::is_finite', 'math::is_infinite', 'math::is_normal']
OTHER = ['math::abs', 'typeof', 'min', 'max', 'if', 'contains', 'contains_any', 'len', 'str::to_lowercase', 'str::to_uppercase', 'str::trim',
         'str::from', 'str::substring', 'bitand', 'bitor', 'bitxor', 'bitnot', 'shl', 'shr']
BUILTINS = list(MATH1) + list(MATH2) + list(ROUND) + FLOAT_IS + OTHER
NOT_BUILTIN = ['foo', 'random', 'str::regex_matches']
MIN64 = z3.BitVecVal(-2 ** 63, 64)
TWO63 = z3.FPVal(2.0 ** 63, F64)
NTWO63 = z3.FPVal(-2.0 ** 63, F64)


def uf(name, *args):
    conc = [models.fp_concrete(a) for a in args]
    if all(c is not None for c in conc):
        r = models.host_libm(name, *conc)
        if r is not None:
            return models.fp_from_py(r)
    return z3.Function('libm_' + name, *([F64] * (len(args) + 1)))(*args)


def to_fp(s):
    return z3.fpSignedToFP(RNE, s[1], F64) if s[0] == 'I' else s[1]


def is_num(s):
    return s[0] in ('I', 'F')


def lt_if(i, f):      # int i < float f, exactly
    ceil = z3.fpToSBV(z3.RTZ(), z3.fpRoundToIntegral(z3.RTP(), f), z3.BitVecSort(64))
    return z3.If(z3.fpGEQ(f, TWO63), True, z3.If(z3.fpLT(f, NTWO63), False, i < ceil))


def lt_fi(f, i):      # float f < int i, exactly
    floor = z3.fpToSBV(z3.RTZ(), z3.fpRoundToIntegral(z3.RTN(), f), z3.BitVecSort(64))
    return z3.If(z3.fpGEQ(f, TWO63), False, z3.If(z3.fpLT(f, NTWO63), True, floor < i))


def num_le(x, y):
    """exact numeric x <= y for number specs (no NaN)"""
    if x[0] == 'I' and y[0] == 'I':
        return x[1] <= y[1]
    if x[0] == 'F' and y[0] == 'F':
        return z3.fpLEQ(x[1], y[1])
    if x[0] == 'I':
        return z3.Not(lt_fi(y[1], x[1]))
    return z3.Not(lt_if(y[1], x[1]))


def num_le_small(x, y):
    """x <= y for number specs when every integer involved is exactly representable as f64 (|i| <= 2^53): comparing after
    the int->float conversion is then exact"""
    if x[0] == 'I' and y[0] == 'I':
        return x[1] <= y[1]
    return z3.fpLEQ(to_fp(x), to_fp(y))


BIG = 2 ** 53
K_MIXED = 'minmax-mixed-int-argument-beyond-2^53'


def minmax_mixed_region(A):
    """z3 Bool describing the known-finding region (mixed int/float arguments with an integer beyond +-2^53), or None"""
    args = A[1] if A[0] == 'T' else [A]
    kinds = set(x[0] for x in args)
    if kinds != {'I', 'F'}:
        return None
    return z3.Or(*[z3.Or(x[1] > BIG, x[1] < -BIG) for x in args if x[0] == 'I'])


def spec_eq_struct(a, b):
    """structural equality with IEEE equality on floats (the crate's PartialEq for Value)"""
    if a[0] != b[0]:
        return z3.BoolVal(False)
    k = a[0]
    if k == 'I':
        return a[1] == b[1]
    if k == 'F':
        return z3.fpEQ(a[1], b[1])
    if k == 'B':
        return a[1] == b[1]
    if k == 'S':
        if len(a[1]) != len(b[1]):
            return z3.BoolVal(False)
        return z3.And(*[x == y for x, y in zip(a[1], b[1])]) if a[1] else z3.BoolVal(True)
    if k == 'T':
        if len(a[1]) != len(b[1]):
            return z3.BoolVal(False)
        return z3.And(*[spec_eq_struct(x, y) for x, y in zip(a[1], b[1])]) if a[1] else z3.BoolVal(True)
    return z3.BoolVal(True)


def chars(py):
    return [z3.BitVecVal(ord(c), 32) for c in py]


def display_items(s, top=True):
    """reference rendering of `str::from` (top level) / Display (nested) as a list of char terms and Opaque segments"""
    k = s[0]
    if k == 'S':
        return list(s[1]) if top else chars('"') + list(s[1]) + chars('"')
    if k == 'I':
        t = z3.simplify(s[1])
        return chars(str(t.as_signed_long())) if z3.is_bv_value(t) else [Opaque('fmt_int', (Int(s[1], True),))]
    if k == 'F':
        x = models.fp_concrete(s[1])
        return chars(models.rust_fmt_f64(x)) if x is not None else [Opaque('fmt_f64', (Fl(s[1]),))]
    if k == 'B':
        return None      # two lengths: handled by the caller with a case split
    if k == 'E':
        return chars('()')
    if k == 'T':
        out = chars('(')
        for i, x in enumerate(s[1]):
            if i:
                out += chars(', ')
            d = display_items(x, top=False)
            if d is None:
                return None
            out += d
        return out + chars(')')


def bool_splits(s):
    """all Boolean leaves of a spec (for case splitting the rendering)"""
    if s[0] == 'B':
        return [s[1]]
    if s[0] == 'T':
        return [b for x in s[1] for b in bool_splits(x)]
    return []


def subst_bools(s, assign):
    if s[0] == 'B':
        for t, v in assign:
            if t.eq(s[1]):
                return ('Bconst', v)
        return s
    if s[0] == 'T':
        return ('T', [subst_bools(x, assign) for x in s[1]])
    return s


def display_items2(s, top=True):
    if s[0] == 'Bconst':
        return chars('true' if s[1] else 'false')
    if s[0] == 'T':
        out = chars('(')
        for i, x in enumerate(s[1]):
            if i:
                out += chars(', ')
            out += display_items2(x, top=False)
        return out + chars(')')
    return display_items(s, top)


def str_items_match(items, want):
    """z3 Bool: code string items (Int / Opaque) equal the reference items (BV32 terms / Opaque)"""
    if len(items) != len(want):
        return z3.BoolVal(False)
    cs = []
    for a, b in zip(items, want):
        if isinstance(a, Int) and z3.is_expr(b):
            cs.append(a.t == b)
        elif isinstance(a, Opaque) and isinstance(b, Opaque):
            if not identical(a, b):
                return z3.BoolVal(False)
        else:
            return z3.BoolVal(False)
    return z3.And(*cs) if cs else z3.BoolVal(True)


# an outcome is ('val', spec) | ('err',) | ('any',) | ('pred', fn(result_value_adt, meta) -> Bool) | ('str', items)
def reference(name, A, simple_cmp=False):
    T = z3.BoolVal(True)
    ERR = [(T, ('err',))]
    tup = A[1] if A[0] == 'T' else None
    if name in MATH1:
        return [(T, ('val', ('F', uf(MATH1[name], to_fp(A)))))] if is_num(A) else ERR
    if name in MATH2:
        if tup is not None and len(tup) == 2 and is_num(tup[0]) and is_num(tup[1]):
            return [(T, ('val', ('F', uf(MATH2[name], to_fp(tup[0]), to_fp(tup[1])))))]
        return ERR
    if name in ROUND:
        return [(T, ('val', ('F', z3.fpRoundToIntegral(ROUND[name], to_fp(A)))))] if is_num(A) else ERR
    if name in FLOAT_IS:
        if not is_num(A):
            return ERR
        x = to_fp(A)
        r = {'math::is_nan': z3.fpIsNaN(x), 'math::is_infinite': z3.fpIsInf(x),
             'math::is_finite': z3.Not(z3.Or(z3.fpIsNaN(x), z3.fpIsInf(x))), 'math::is_normal': z3.fpIsNormal(x)}[name]
        return [(T, ('val', ('B', r)))]
    if name == 'math::abs':
        if A[0] == 'I':
            return [(A[1] != MIN64, ('val', ('I', z3.If(A[1] < 0, -A[1], A[1])))), (A[1] == MIN64, ('err',))]
        if A[0] == 'F':
            return [(T, ('val', ('F', z3.fpAbs(A[1]))))]
        return ERR
    if name == 'typeof':
        return [(T, ('val', ('S', chars({'S': 'string', 'F': 'float', 'I': 'int', 'B': 'boolean', 'T': 'tuple', 'E': 'empty'}[A[0]]))))]
    if name in ('min', 'max'):
        args = tup if tup is not None else [A]
        if not args:
            return [(T, ('any',))]      # zero arguments: undocumented
        if not all(is_num(x) for x in args):
            return ERR
        nan = z3.Or(*[z3.fpIsNaN(x[1]) for x in args if x[0] == 'F']) if any(x[0] == 'F' for x in args) else z3.BoolVal(False)

        le = num_le_small if simple_cmp else num_le

        def pred(v, meta, args=args, name=name):
            alts = []
            for x in args:
                same = value_matches_spec(meta, v, x)
                best = z3.And(*[(le(x, y) if name == 'min' else le(y, x)) for y in args])
                alts.append(z3.And(same, best))
            return z3.Or(*alts)
        return [(z3.Not(nan), ('pred', pred)), (nan, ('any',))]
    if name == 'if':
        if tup is not None and len(tup) == 3 and tup[0][0] == 'B':
            return [(tup[0][1], ('val', tup[1])), (z3.Not(tup[0][1]), ('val', tup[2]))]
        return ERR
    if name == 'contains':
        if tup is not None and len(tup) == 2 and tup[0][0] == 'T' and tup[1][0] in ('S', 'I', 'F', 'B'):
            hay = tup[0][1]
            return [(T, ('val', ('B', z3.Or(*[spec_eq_struct(h, tup[1]) for h in hay]) if hay else z3.BoolVal(False))))]
        return ERR
    if name == 'contains_any':
        if tup is not None and len(tup) == 2 and tup[0][0] == 'T' and tup[1][0] == 'T' and all(x[0] in ('S', 'I', 'F', 'B') for x in tup[1][1]):
            hay = tup[0][1]
            needles = tup[1][1]
            r = z3.Or(*[spec_eq_struct(h, n) for h in hay for n in needles]) if hay and needles else z3.BoolVal(False)
            return [(T, ('val', ('B', r)))]
        return ERR
    if name == 'len':
        if A[0] == 'S':
            total = z3.BitVecVal(0, 64)
            for c in A[1]:
                total = total + utf8_width(z3.ZeroExt(32, c))
            return [(T, ('val', ('I', total)))]
        if A[0] == 'T':
            return [(T, ('val', ('I', z3.BitVecVal(len(A[1]), 64))))]
        return ERR
    if name in ('str::to_lowercase', 'str::to_uppercase', 'str::trim'):
        if A[0] != 'S':
            return ERR
        kind = name.split('::')[1]
        py = None
        cs = [z3.simplify(c) for c in A[1]]
        if all(z3.is_bv_value(c) and c.as_long() < 128 for c in cs):
            py = ''.join(chr(c.as_long()) for c in cs)
            out = {'trim': py.strip(' \t\n\r\x0b\x0c'), 'to_lowercase': py.lower(), 'to_uppercase': py.upper()}[kind]
            return [(T, ('val', ('S', chars(out))))]
        if kind == 'trim' and len(cs) <= 6:
            # exact reference: the longest substring without leading / trailing White_Space characters (is_whitespace is validated over all scalars)
            ws = [is_ws(x) for x in A[1]]
            n_ = len(ws)
            out = [(z3.And(*ws) if ws else T, ('val', ('S', [])))]
            for i_ in range(n_):
                for j_ in range(i_ + 1, n_ + 1):
                    out.append((z3.And(*(ws[:i_] + [z3.Not(ws[i_]), z3.Not(ws[j_ - 1])] + ws[j_:])), ('val', ('S', list(A[1][i_:j_])))))
            return out
        return [(T, ('str', [Opaque(kind, (SStr([Int(c, False) for c in A[1]]),))]))]
    if name == 'str::from':
        bs = bool_splits(A)
        if not bs:
            return [(T, ('str', display_items(A)))]
        out = []
        for combo in itertools.product([True, False], repeat=len(bs)):
            cond = z3.And(*[b if v else z3.Not(b) for b, v in zip(bs, combo)])
            out.append((cond, ('str', display_items2(subst_bools(A, list(zip(bs, combo)))))))
        return out
    if name == 'str::substring':
        if tup is None or len(tup) not in (2, 3) or tup[0][0] != 'S' or tup[1][0] != 'I' or (len(tup) == 3 and tup[2][0] != 'I'):
            return ERR
        cs = tup[0][1]
        pref = [z3.BitVecVal(0, 64)]
        for c in cs:
            pref.append(pref[-1] + utf8_width(z3.ZeroExt(32, c)))
        start = tup[1][1]
        end = tup[2][1] if len(tup) == 3 else pref[-1]
        out = []
        hit = []
        for i in range(len(cs) + 1):
            for j in range(i, len(cs) + 1):
                cond = z3.And(start == pref[i], end == pref[j])
                out.append((cond, ('val', ('S', cs[i:j]))))
                hit.append(cond)
        out.append((z3.Not(z3.Or(*hit)), ('err',)))
        return out
    if name in ('bitand', 'bitor', 'bitxor', 'shl', 'shr'):
        if tup is None or len(tup) != 2 or tup[0][0] != 'I' or tup[1][0] != 'I':
            return ERR
        a, b = tup[0][1], tup[1][1]
        if name in ('shl', 'shr'):
            inr = z3.And(b >= 0, b <= 63)
            r = (a << b) if name == 'shl' else (a >> b)
            return [(inr, ('val', ('I', r))), (z3.Not(inr), ('any',))]
        return [(T, ('val', ('I', {'bitand': a & b, 'bitor': a | b, 'bitxor': a ^ b}[name])))]
    if name == 'bitnot':
        return [(T, ('val', ('I', ~A[1])))] if A[0] == 'I' else ERR
    raise ValueError(name)


def claim_for(meta, o, refcases, allow_panic_on_any=True):
    alts = []
    for cond, want in refcases:
        if want[0] == 'any':
            alts.append(cond)
            continue
        if o.kind != 'return':
            continue
        r = o.value
        if want[0] == 'err':
            if r.variant == 1:
                alts.append(cond)
        elif r.variant == 0:
            v = r.fields[0]
            if want[0] == 'val':
                alts.append(z3.And(cond, value_matches_spec(meta, v, want[1])))
            elif want[0] == 'pred':
                alts.append(z3.And(cond, want[1](v, meta)))
            elif want[0] == 'str':
                if isinstance(v.variant, int) and meta.enums['Value'][v.variant][0] == 'String':
                    alts.append(z3.And(cond, str_items_match(v.fields[0].items, want[1])))
    return z3.Or(*alts) if alts else z3.BoolVal(False)


def arg_shapes(tier):
    e1 = ['I', 'F', 'B', 'S0', 'S1', 'S2', 'E', 'T0', 'T1']
    shapes = ['E'] + e1[:6] + ['S3', 'T0', 'T1', 'T2', 'T[I]', 'T[F]', 'T[S1]', 'T[B]']
    e2 = ['I', 'F', 'B', 'S1', 'S2', 'T0', 'T1', 'E', 'T[S1,I]', 'T[F,B]'] if tier == 'quick' else e1 + ['T[S1,I]', 'T[F,B]', 'T[T0]', 'S3']
    e3 = ['I', 'F', 'B', 'S2', 'T1'] if tier == 'quick' else ['I', 'F', 'B', 'S1', 'S2', 'T1', 'E']
    shapes += ['T[%s,%s]' % (x, y) for x in e2 for y in e2]
    shapes += ['T[%s,%s,%s]' % (x, y, z) for x in e3 for y in e3 for z in e3]
    if tier != 'quick':
        shapes += ['T[S3,I,I]', 'T[S3,I]', 'T[I,I,I,I]', 'T[F,I,F,I]']
    seen = set()
    out = []
    for s in shapes:
        if s not in seen:
            seen.add(s)
            out.append(s)
    return out


_C = {}


def ctx(ofc):
    if ofc not in _C:
        _C[ofc] = Ctx(frontend.load(overflow_checks=ofc), overflow_checks=ofc)
    return _C[ofc]


def run_builtin(C, name, shape):
    cons = []
    v, A = make_value(C, shape, 'x', cons)
    body = C.method('Operator', 'eval')
    ex, outs = C.run(body, lambda st: [ref_to(st, C.operator('FunctionIdentifier', sstr(name))), ref_to(st, VecV([v])),
                                       ref_to(st, C.empty_context(with_builtins=True))], pc=cons)
    return cons, A, ex, outs


def role(name, A, panic):
    """role key of a counterexample, for known findings"""
    def types(s):
        return spec_type(s)[0] + ('(' + ','.join(types(x) for x in s[1]) + ')' if s[0] == 'T' else '')
    if name in ('min', 'max'):
        args = A[1] if A[0] == 'T' else [A]
        kinds = set(spec_type(x) for x in args)
        if A[0] != 'T':
            return 'minmax-single-non-tuple-argument'
        if kinds == {'Float'}:
            return 'minmax-all-float-arguments-sentinel'
        if kinds == {'Int'}:
            return 'minmax-all-int-arguments'
        return 'minmax-mixed-int-float-arguments'
    return '%s%s on %s' % ('panic in ' if panic else '', name, types(A))


def unit(u, res):
    name, shapes, ofc, timeout_ms, cvc5_rate, seed, mode = u
    C = ctx(ofc)
    meta = C.meta
    open_roles = set(k['key'] for k in checklib.load_known() if k.get('property') == PID and k.get('status', 'open') == 'open')
    pr = checklib.Prover(res, timeout_ms, cvc5_rate, random.Random(hash((seed, name)) & 0xffffffff))
    for shape in shapes:
        t0 = time.time()
        try:
            cons, A, ex, outs = run_builtin(C, name, shape)
        except Unsupported as x:
            res.inconclusive.append('%s(%s): unsupported: %s @ %s' % (name, shape, x, getattr(x, 'where', None)))
            continue
        res.exec_s += time.time() - t0
        res.feas_queries += ex.nq
        res.bodies |= ex.bodies_used
        res.models |= ex.models_used
        res.paths += len(outs)
        refcases = reference(name, A) if (mode == 'c10' and name in BUILTINS) else None
        for i, o in enumerate(outs):
            if cons or len(o.pc) > len(cons):
                res.nontrivial_paths += 1
            nm = '%s(%s) path %d' % (name, shape, i)
            if mode == 'c01':
                if o.kind != 'panic':
                    res.obligations += 1
                    res.discharged += 1
                    continue
                feas, model = pr.feasible(o.pc)
                res.obligations += 1
                if feas is None:
                    res.unknown.append(nm)
                elif not feas:
                    res.discharged += 1
                else:
                    a_c = spec_concrete(A, model)
                    res.sat.append(dict(key=role(name, A, True), builtin=name, arg=a_c, overflow_checks=ofc, got='panic: %s' % o.value,
                                        witness='%s(%s) [overflow checks %s]' % (name, a_c, 'on' if ofc else 'off')))
                continue
            # engine validation on a seed-chosen sample of paths (builtins whose value does not involve an uninterpreted symbol)
            if o.kind == 'return' and name in EXACT_BUILTINS and pr.rng.random() < TRACE_RATE[0]:
                fe_, m_ = pr.feasible(o.pc)
                if fe_:
                    a_c = fix_value(spec_concrete(A, m_))
                    pred = render_result(meta, o.value, m_)
                    has_float = 'Float' in repr(a_c)
                    text = replay.case_text('c', 'eval_with_context', '%s(v)' % name if a_c[0] != 'Empty' else '%s()' % name, vars=[('v', a_c)] if a_c[0] != 'Empty' else [])
                    nat = replay.run_cases(text, 'dev' if ofc else 'release')['c'].get('result')
                    if (name == 'str::from' and has_float) or '\ufffd<' in repr(pred):
                        okp = True          # float rendering (and any other uninterpreted text) is opaque in the prediction: not comparable
                    else:
                        okp = nat is not None and ((pred[0] == 'Ok' and nat[0] == 'Ok' and norm_val(pred[1]) == norm_val(nat[1])) or (pred[0] == 'Err' and nat[0] == 'Err' and pred[1] == nat[1]))
                    if okp:
                        res.traces_validated += 1
                    else:
                        res.inconclusive.append('engine validation: %s(%s) predicted %s, native %s' % (name, a_c, pred, nat))
            region = None
            if refcases is None:
                claim = z3.BoolVal(o.kind == 'return' and o.value.variant == 1 and error_name(meta, o.value.fields[0]) == 'FunctionIdentifierNotFound')
            else:
                claim = claim_for(meta, o, refcases)
                if name in ('min', 'max') and K_MIXED in open_roles:
                    region = minmax_mixed_region(A)
            if region is not None:
                # known finding: the region is excluded from the claim (and decided separately, only to report whether it still fails)
                claim_small = claim_for(meta, o, reference(name, A, simple_cmp=True))
                verdict, model = pr.prove(nm + ' [ints within +-2^53]', o.pc + [z3.Not(region)], claim_small)
                pr2 = checklib.Prover(checklib.UnitResult('region'), min(timeout_ms, 30000))
                v2, m2 = pr2.prove(nm + ' [known region]', o.pc + [region], claim)
                res.solver_s += pr2.res.solver_s
                res.extra.setdefault('known_region_queries', []).append((nm, v2))
                if v2 == 'sat':
                    a_c = spec_concrete(A, m2)
                    res.sat.append(dict(key=K_MIXED, builtin=name, arg=a_c, overflow_checks=ofc,
                                        got=str(render_result(meta, o.value, m2)) if o.kind == 'return' else 'panic', witness='%s(%s)' % (name, a_c)))
            else:
                verdict, model = pr.prove(nm, o.pc, claim, diversify=diversify_plan([A]))
            if len(res.samples) < 2 and (cons or i > 0):
                res.samples.append(dict(builtin=name, argument_shape=shape, overflow_checks=ofc, path=i,
                                        path_condition=[str(z3.simplify(c))[:160] for c in o.pc[len(cons):]][:3],
                                        outcome=(render_result(meta, o.value)[0] if o.kind == 'return' else 'panic'), verdict=verdict))
            if verdict == 'sat':
                for mdl in [model] + list(pr.extra_models):
                    a_c = spec_concrete(A, mdl)
                    res.sat.append(dict(key=role(name, A, o.kind == 'panic'), builtin=name, arg=a_c, overflow_checks=ofc,
                                        got=str(render_result(meta, o.value, mdl)) if o.kind == 'return' else 'panic: %s' % o.value,
                                        witness='%s(%s)' % (name, a_c)))


# ---------------------------------------------------------------- replay
def fix_value(v):
    if isinstance(v, list):
        v = tuple(v)
    if v[0] == 'Tuple':
        return ('Tuple', [fix_value(x) for x in v[1]])
    return tuple(v)


def py_to_spec(v):
    k = v[0]
    if k == 'Int':
        return ('I', z3.BitVecVal(v[1], 64))
    if k == 'Float':
        bits = 0x7ff8000000000000 if v[1] == 'nan' else v[1]
        return ('F', z3.fpBVToFP(z3.BitVecVal(bits, 64), F64))
    if k == 'Boolean':
        return ('B', z3.BoolVal(v[1]))
    if k == 'String':
        return ('S', [z3.BitVecVal(ord(c), 32) for c in v[1]])
    if k == 'Tuple':
        return ('T', [py_to_spec(x) for x in v[1]])
    return ('E',)


def judge_native(name, arg, got, meta):
    """does the native outcome satisfy the reference on this concrete argument?"""
    A = py_to_spec(arg)
    cases = reference(name, A)
    want = None
    for cond, w in cases:
        if z3.is_true(z3.simplify(cond)):
            want = w
            break
    if want is None:
        return False, 'no reference case'
    if want[0] == 'any':
        return True, 'unclaimed input'
    if got is None or got[0] == 'panic':
        return False, 'panic'
    if want[0] == 'err':
        return got[0] == 'Err', 'reference: error'
    if got[0] != 'Ok':
        return False, 'reference: a value'
    g = py_to_spec(got[1])
    if want[0] == 'val':
        w = want[1]
        if w[0] != g[0]:
            return False, 'type differs'
        if w[0] == 'F':
            return z3.is_true(z3.simplify(w[1] == g[1])), 'reference %s' % z3.simplify(w[1])
        return z3.is_true(z3.simplify(spec_eq_struct(w, g))), 'reference %s' % (w,)
    if want[0] == 'pred':
        class FakeMeta(object):
            enums = meta.enums
        # build a Value Adt from the native result and evaluate the predicate
        C = ctx(True)
        cons = []
        v = value_from_py(C, got[1])
        return z3.is_true(z3.simplify(want[1](v, meta))), 'reference: extremal argument of its own type'
    if want[0] == 'str':
        if g[0] != 'S':
            return False, 'type differs'
        items = want[1]
        if any(isinstance(x, Opaque) for x in items):
            if name in ('str::to_lowercase', 'str::to_uppercase', 'str::trim') and arg[0] == 'String':
                # concrete replay judge: full Unicode case mapping (Python implements the same SpecialCasing rules incl. final sigma); trim = White_Space
                s_ = arg[1]
                ws = set(chr(c) for lo, hi in WS_RANGES for c in range(lo, hi + 1))
                exp = s_.lower() if name.endswith('lowercase') else s_.upper() if name.endswith('uppercase') else s_.strip(''.join(ws))
                return got[1] == ('String', exp), 'reference: %r' % exp
            return True, 'opaque reference (number rendering) not judged concretely'
        return z3.is_true(z3.simplify(spec_eq_struct(('S', items), g))), 'reference string'
    return False, '?'


def value_from_py(C, v):
    k = v[0]
    if k == 'Int':
        return C.v_int(v[1])
    if k == 'Float':
        bits = 0x7ff8000000000000 if v[1] == 'nan' else v[1]
        return C.v_float(z3.fpBVToFP(z3.BitVecVal(bits, 64), F64))
    if k == 'Boolean':
        return C.v_bool(v[1])
    if k == 'String':
        return C.v_str(v[1])
    if k == 'Tuple':
        return C.v_tuple([value_from_py(C, x) for x in v[1]])
    return C.v_empty()


def replay_ce(ce, c01=False):
    name, arg = ce['builtin'], fix_value(ce['arg'])
    text = replay.case_text('c', 'eval_with_context', '%s(v)' % name if arg[0] != 'Empty' else '%s()' % name, vars=[('v', arg)] if arg[0] != 'Empty' else [])
    details = []
    bad = False
    meta = ctx(True).meta
    for prof in ('dev', 'release'):
        out = replay.run_cases(text, prof)['c']
        got = ('panic', out['panic']) if 'panic' in out else out.get('result')
        if c01:
            v = got is not None and got[0] == 'panic'
            details.append('%s: %s' % (prof, got))
        else:
            okk, why = judge_native(name, arg, got, meta)
            v = not okk
            details.append('%s: got %s (%s) -> %s' % (prof, got, why, 'ok' if okk else 'VIOLATES'))
        bad = bad or v
    return ('reproduced' if bad else 'not_reproduced'), details


DEEP_BUILTINS = ['contains', 'contains_any', 'len', 'str::from', 'typeof', 'if', 'min', 'max']


def deep_shapes(tier):
    """pairs of tuples whose elements include nested tuples / empty values (haystack / needles of contains*, nested rendering of str::from)"""
    el = ['I', 'S1', 'T0', 'E'] if tier == 'quick' else ['I', 'F', 'S1', 'B', 'T0', 'T1', 'E']
    out = []
    for a in el:
        for b in el:
            out.append('T[T[%s,%s],%s]' % (a, b, a))
            for c_ in el:
                out.append('T[T[%s,%s],T[%s]]' % (a, b, c_))
                for d in (el if tier != 'quick' else ['I', 'T0']):
                    out.append('T[T[%s,%s],T[%s,%s]]' % (a, b, c_, d))
    return out


LARGE = {
    'min': ['T[I,I,I,I]', 'T[F,F,F,F,F]', 'T[I,I,I,I,I,I]', 'T[I,I,I,B]', 'T[F,F,F,F,S1]'],
    'max': ['T[I,I,I,I]', 'T[F,F,F,F,F]', 'T[I,I,I,I,I,I]', 'T[I,I,I,B]', 'T[F,F,F,F,S1]'],
    'contains': ['T[T[I,I,I,I],I]', 'T[T[S1,I,F,B,S1],S1]', 'T[T[I,I,I,I,I],T0]'],
    'contains_any': ['T[T[I,S1,I,S1],T[S1,I,S1]]', 'T[T[I,I,I,I],T[I,I,I,T0]]', 'T[T[I,I],T[I,I,I,I,E]]'],
    'len': ['S5', 'T[I,I,I,I,I]', 'S4'],
    'str::from': ['T[I,S1,B,F,E]', 'S5', 'T[T[I,I],T[S1,T0],I,B]'],
    'str::substring': ['T[S5,I,I]', 'T[S5,I]', 'T[S4,I,I]'],
    'str::to_lowercase': ['S5'], 'str::to_uppercase': ['S5'], 'str::trim': ['S5'],
    'if': ['T[B,T[I,I,I,I],S5]'],
    'typeof': ['T[I,I,I,I,I]', 'S5'],
}


EXACT_BUILTINS = ['floor', 'round', 'ceil', 'math::is_nan', 'math::is_finite', 'math::is_infinite', 'math::is_normal', 'math::abs', 'typeof', 'min', 'max', 'if', 'contains',
                  'contains_any', 'len', 'str::substring', 'bitand', 'bitor', 'bitxor', 'bitnot', 'shl', 'shr', 'str::from']
TRACE_RATE = [0.005]


def norm_val(v):
    if isinstance(v, (list, tuple)):
        if len(v) == 2 and v[0] == 'Tuple':
            return ('Tuple', tuple(norm_val(x) for x in v[1]))
        return tuple(norm_val(x) for x in v)
    return v


def make_units(tier, seed, mode):
    # the mixed int/float min/max obligations are the heaviest queries of the whole framework (FP conversion of 64-bit integers): 5-40 s each on an
    # idle machine, several times that under load -- hence the generous per-query cap (a timeout is reported as inconclusive, never as success)
    timeout_ms = 300000 if tier == 'quick' else 900000
    cvc5_rate = 0.005 if tier == 'quick' else 0.05
    TRACE_RATE[0] = 0.005 if tier == 'quick' else 0.05
    shapes = arg_shapes(tier)
    units = []
    names = BUILTINS + (NOT_BUILTIN if mode == 'c10' else [])
    for ofc in (True, False):
        frontend.load(overflow_checks=ofc)
        for name in names:
            mine = list(shapes) + (deep_shapes(tier) if name in DEEP_BUILTINS else []) + LARGE.get(name, [])
            random.Random(zlib.crc32(name.encode()) ^ seed).shuffle(mine)
            k = 24
            for i in range(0, len(mine), k):
                units.append((name, list(mine[i:i + k]), ofc, timeout_ms, cvc5_rate, seed, mode))
    random.Random(seed).shuffle(units)
    return units, shapes, timeout_ms


def main():
    t0 = time.time()
    tier = checklib.env_tier()
    seed = checklib.env_seed()
    units, shapes, timeout_ms = make_units(tier, seed, 'c10')
    results = checklib.run_units(checklib.safe_worker(unit), units)
    checklib.finish(PID, results, t0=t0, replay_fn=replay_ce,
                    rule='complete matrix of %d builtin names (+%d non-builtin names) x %d argument shapes (arity 0..3, element types Int/Float/Boolean/String of 0..3 chars/'
                         'Empty/tuples) x overflow checks on/off; every payload a solver variable; one obligation per path: PC => outcome satisfies the documented reference'
                         % (len(BUILTINS), len(NOT_BUILTIN), len(shapes)),
                    explanation='bounded symbolic verification: the builtin closures are executed from MIR through Operator::eval(FunctionIdentifier) on symbolic arguments; '
                                'reference terms are written from the README table (libm functions as shared uninterpreted symbols, exact FP terms for floor/ceil/round/abs/is_*, '
                                'exact int/float comparison for min/max, byte-range semantics for len/substring)',
                    assumptions=['libm functions, float formatting and Unicode case mapping/trim are uninterpreted symbols shared by code and reference',
                                 'min/max unclaimed when an argument is NaN; shl/shr unclaimed for amounts outside 0..63',
                                 'strings up to 3 chars; tuples up to 3 (4 in thorough) elements, one nesting level',
                                 'wrong arity / wrong types => any Err'],
                    bounds=dict(builtins=BUILTINS, argument_shapes=len(shapes), overflow_checks=[True, False], solver_timeout_ms=timeout_ms))


if __name__ == '__main__':
    main()
