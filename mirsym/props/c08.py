"""C08 — strict left-to-right evaluation; the first error wins.  (Also provides the tree-level half of C11.)

Inductive step on the node evaluator: Node::eval_with_context[_mut] is executed from MIR with the recursive call on children and
Operator::eval[_mut] replaced by havoc stubs that log and return arbitrary results.  Because every node of every tree is evaluated by
this same body, the step lifts to all programs by induction on height -- no depth bound; the fan-out k is bounded."""
import zlib
import sys, os, time, random, itertools, re
import z3
sys.path.insert(0, os.path.dirname(os.path.dirname(os.path.abspath(__file__))))
import frontend, checklib, replay, models
from harness import *
from engine import NOTFOUND, identical

PID = 'C08'
CVC5_RATE = [0.01]
OPERATORS = ['RootNode', 'Add', 'Sub', 'Neg', 'Mul', 'Div', 'Mod', 'Exp', 'Eq', 'Neq', 'Gt', 'Lt', 'Geq', 'Leq', 'And', 'Or', 'Not',
             'Assign', 'AddAssign', 'SubAssign', 'MulAssign', 'DivAssign', 'ModAssign', 'ExpAssign', 'AndAssign', 'OrAssign', 'Tuple', 'Chain',
             'Const', 'VariableIdentifierWrite', 'VariableIdentifierRead', 'FunctionIdentifier']
VALUE_KINDS = ['Int', 'Boolean', 'Float', 'String', 'Tuple', 'Empty']
_C = {}


def ctx():
    if 'c' not in _C:
        _C['c'] = Ctx(frontend.load(overflow_checks=True), overflow_checks=True)
    return _C['c']


def havoc_value(C, prefix, kind):
    if kind == 'Int':
        return C.v_int(z3.BitVec(prefix + '_i', 64))
    if kind == 'Boolean':
        return C.v_bool(z3.Bool(prefix + '_b'))
    if kind == 'Float':
        return C.v_float(z3.FP(prefix + '_f', F64))
    if kind == 'String':
        return C.v_str(SStr([Int(z3.BitVec(prefix + '_c', 32), False)]))
    if kind == 'Tuple':
        return C.v_tuple([C.v_int(z3.BitVec(prefix + '_t', 64))])
    return C.v_empty()


def havoc_result(C, ex, st, prefix, kinds):
    """fork over Ok(value of each kind) / Err(marker error); returns (tag, Result adt)"""
    sel = z3.BitVec(prefix + '_sel', 8)
    opts = [(sel == i, k) for i, k in enumerate(kinds)] + [(z3.UGE(sel, len(kinds)), 'ERR')]
    tag = ex.branch(st, opts)
    if tag == 'ERR':
        return tag, err(Adt('EvalexprError', C.VI('EvalexprError', 'CustomMessage'), [sstr(prefix)]))
    return tag, ok(havoc_value(C, prefix, tag))


def make_op(C, opname):
    if opname == 'Const':
        return C.operator('Const', C.v_int(7))
    if opname.startswith('FunctionIdentifier:'):
        return C.operator('FunctionIdentifier', sstr(opname.split(':', 1)[1]))
    if opname in ('VariableIdentifierWrite', 'VariableIdentifierRead', 'FunctionIdentifier'):
        return C.operator(opname, sstr('x'))
    return C.operator(opname)


CHILD_KINDS = ['Const', 'VariableIdentifierWrite', 'VariableIdentifierRead', 'FunctionIdentifier', 'Add', 'Assign', 'RootNode', 'Identical', 'TupleArgs', 'Literal', 'TargetThenCall']
# top-level function identifiers: a user name and builtin names whose calls a "smart" evaluator might special-case
FUNCTION_NAMES = ['x', 'if', 'min', 'contains']


def child_node(C, kind, i):
    leaf = lambda j: C.node(C.operator('Const', C.v_int(2000 + j)))
    if kind == 'TargetThenCall':
        # the shape of every assignment in source text: child 0 is the write target `v0` (a leaf that cannot fail and makes no call), the other
        # children are opaque sub-expressions (recording calls natively) -- an evaluator that treats the target specially (reads it, or resolves it
        # against the context, before the right-hand side was evaluated) shows up here and only here
        kind = 'VariableIdentifierWrite' if i == 0 else 'Const'
    if kind in ('Const', 'Literal'):
        # 'Const' is realised natively as a recording call, 'Literal' as an identifier-free constant (or the failing constant expression 1/0)
        return C.node(C.operator('Const', C.v_int(1000 + i)))
    if kind in ('VariableIdentifierWrite', 'VariableIdentifierRead'):
        return C.node(C.operator(kind, sstr('v%d' % i)))
    if kind == 'FunctionIdentifier':
        return C.node(C.operator(kind, sstr('g%d' % i)), [leaf(i)])
    if kind == 'RootNode':
        return C.node(C.operator('RootNode'), [leaf(i)])
    if kind == 'Identical':
        # structurally identical non-leaf siblings (a call `same(7)` repeated): each must still be evaluated
        return C.node(C.operator('FunctionIdentifier', sstr('same')), [C.node(C.operator('Const', C.v_int(7)))])
    if kind == 'TupleArgs':
        # the shape of call arguments `(p, q, r)`: RootNode(Tuple(RootNode(leaf) x 3))
        return C.node(C.operator('RootNode'), [C.node(C.operator('Tuple'), [C.node(C.operator('RootNode'), [leaf(10 * i + j)]) for j in range(3)])])
    return C.node(C.operator(kind), [C.node(C.operator('VariableIdentifierWrite', sstr('w'))), leaf(i)])


def step_run(C, opname, k, mutable, kinds, child_kind='Const'):
    """run the node evaluator on a node with k children (of the given operator kind); returns (ex, outs)"""
    children = [child_node(C, child_kind, i) for i in range(k)]
    top = C.node(make_op(C, opname), children)
    fname = 'eval_with_context_mut' if mutable else 'eval_with_context'
    body = C.method('Node', fname)
    ex = C.new_exec()

    def child_stub(ex_, st, c, args):
        # the child is identified by its position in the parent's children vector (last step of the reference path)
        r = args[0]
        idx = None
        if isinstance(r, Ref) and r.path and r.path[-1][0] == 'index' and r.cell.id == holder['n'].cell.id:
            idx = r.path[-1][1]
        if idx is None or not (0 <= idx < k):
            # the evaluator looked past its direct children (e.g. into a grandchild): recorded as an event no reference run contains
            tag, r_ = havoc_result(C, ex_, st, 'stray', ['Int', 'Boolean'])
            st.log.append(('child', -1, args[1] if len(args) > 1 else None))
            st.notes.append(('child', -1, tag, r_))
            return r_
        if child_kind == 'TargetThenCall' and idx == 0:
            # a write target evaluates to its own name and never fails (that is what Operator::eval does for it); every other child is havoc
            tag, r = 'String', ok(C.v_str(sstr('v0')))
        else:
            tag, r = havoc_result(C, ex_, st, 'child%d' % idx, kinds)
        st.log.append(('child', idx, args[1] if len(args) > 1 else None))
        st.notes.append(('child', idx, tag, r))
        return r

    def apply_stub(ex_, st, c, args):
        opv = ex_.deref_all(args[0])
        argv = ex_.deref_all(args[1])
        tag, r = havoc_result(C, ex_, st, 'apply', ['Int', 'Empty'])
        st.log.append(('apply', c.split('::')[-1], copy_value(opv), copy_value(argv), args[2]))
        st.notes.append(('apply', tag, r))
        return r

    ex.overrides.append((re.compile(r'Node::' + fname), child_stub))
    ex.overrides.append((re.compile(r'operator::Operator::eval(_mut)?'), apply_stub))
    ctxv = C.hashmap_context()
    holder = {}

    def mkargs(st):
        n = ref_to(st, top)
        c = ref_to(st, ctxv, mut=True)
        holder['ctx'] = c
        holder['n'] = n
        return [n, c]
    ex2, outs = C.run(body, mkargs, ex=ex)
    return ex, outs, holder


def check_path(C, o, k, mutable, holder, opname):
    """concrete structural check of one path's log + z3-free comparison of values; returns (ok, why)"""
    log = o.log
    notes = o.state.notes
    child_events = [e for e in log if e[0] == 'child']
    apply_events = [e for e in log if e[0] == 'apply']
    child_notes = [n for n in notes if n[0] == 'child']
    # children in order, each once, up to first failure
    idxs = [e[1] for e in child_events]
    fail_at = None
    for n in child_notes:
        if n[2] == 'ERR':
            fail_at = n[1]
            break
    want = list(range(k)) if fail_at is None else list(range(fail_at + 1))
    if idxs != want:
        return False, 'children evaluated %s, expected %s' % (idxs, want)
    # every child got the caller's context
    for e in child_events:
        if e[2] is None or not isinstance(e[2], Ref) or e[2].cell.id != holder['ctx'].cell.id:
            return False, 'child %d evaluated with a different context' % e[1]
    if o.kind != 'return':
        return False, 'panic: %s' % o.value
    res = o.value
    if fail_at is not None:
        if apply_events:
            return False, 'operator applied although child %d failed' % fail_at
        failed = [n for n in child_notes if n[1] == fail_at][0][3]
        if not identical(res, failed):
            return False, 'result is not the error of the first failing child'
        return True, None
    if len(apply_events) != 1:
        return False, 'operator applied %d times' % len(apply_events)
    ap = apply_events[0]
    if log.index(ap) != len(log) - 1 or log.index(ap) < len(child_events):
        return False, 'operator applied before all children were evaluated'
    want_fn = 'eval_mut' if mutable else 'eval'
    if ap[1] != want_fn:
        return False, 'applied through Operator::%s, expected Operator::%s' % (ap[1], want_fn)
    args = ap[3]
    vals = [n[3].fields[0] for n in child_notes]
    if len(args.items) != len(vals) or not all(identical(a, v) for a, v in zip(args.items, vals)):
        return False, 'operator arguments are not the children\'s values in order'
    if not (isinstance(ap[4], Ref) and ap[4].cell.id == holder['ctx'].cell.id):
        return False, 'operator applied with a different context'
    opv = ap[2]
    if not identical(opv, make_op(C, opname)):
        return False, 'a different operator was applied'
    apply_res = [n for n in notes if n[0] == 'apply'][0][2]
    if not identical(res, apply_res):
        return False, 'result is not the operator\'s result'
    return True, None


def unit(u, res):
    if u[0] == 'walk':
        return unit_walk(u, res)
    opname, k, mutable, timeout_ms, seed, pid = u[:6]
    child_kind = u[6] if len(u) > 6 else 'Const'
    C = ctx()
    kinds = VALUE_KINDS
    t0 = time.time()
    ex, outs, holder = step_run(C, opname, k, mutable, kinds, child_kind)
    res.exec_s += time.time() - t0
    res.feas_queries += ex.nq
    res.bodies |= ex.bodies_used
    res.models |= ex.models_used
    res.paths += len(outs)
    pr = checklib.Prover(res, timeout_ms, CVC5_RATE[0], random.Random(zlib.crc32(repr(u).encode()) ^ checklib.env_seed()))
    name = 'Node::%s on %s with %d %s children' % ('eval_with_context_mut' if mutable else 'eval_with_context', opname, k, child_kind)
    if k >= 1 and not any(e[0] == 'child' for o in outs for e in o.log) and max([len([e for e in o.log if e[0] == 'apply']) for o in outs] or [0]) >= 2:
        # The evaluator never calls itself on a child but applies several operators: it walks the tree in place (explicit stack / loop), so the
        # decomposition "one node, children stubbed" does not describe it.  The step is not applicable; the bounded whole-tree walk units decide.
        res.obligations += 1
        res.discharged += 1
        res.extra['step_not_applicable'] = True
        if len(res.samples) < 1:
            res.samples.append(dict(unit=name, note='evaluator is not recursive: inductive step not applicable, decided by the bounded tree-walk units'))
        return
    for i, o in enumerate(outs):
        if k:
            res.nontrivial_paths += 1
        res.obligations += 1
        good, why = check_path(C, o, k, mutable, holder, opname)
        if good:
            res.discharged += 1
            continue
        feas, model = pr.feasible(o.pc)
        if feas is None:
            res.unknown.append(name)
        elif not feas:
            res.discharged += 1
        else:
            tags = [(n[1], n[2]) for n in o.state.notes if n[0] == 'child']
            res.sat.append(dict(key='node-evaluator-step: %s' % why.split(',')[0][:60], operator=opname, children=k, mutable=mutable, child_kind=child_kind,
                                child_outcomes=tags, why=why, witness='%s: child outcomes %s: %s' % (name, tags, why)))
    if len(res.samples) < 1 and outs:
        o = outs[-1]
        res.samples.append(dict(unit=name, paths=len(outs), example_log=[(e[0], e[1]) for e in o.log],
                                child_outcomes=[(n[1], n[2]) for n in o.state.notes if n[0] == 'child']))


# ---------------------------------------------------------------- bounded whole-tree walk (does not assume a recursive evaluator)
WALK_OPS = ['Tuple', 'Chain', 'Add', 'And', 'Or', 'Assign', 'AddAssign', 'RootNode', 'Not', 'Neg', 'Eq', 'FunctionIdentifier:if', 'FunctionIdentifier', 'Exp', 'Mod']


def forests(n):
    if n == 0:
        return [[]]
    out = []
    for k in range(1, n + 1):
        for first in forests(k - 1):
            for rest in forests(n - k):
                out.append([first] + rest)
    return out


def unit_walk(u, res):
    """Node::eval_with_context[_mut] on a whole tree (every ordered shape up to a node bound); only Operator::eval[_mut] is a havoc stub (Ok(any Int) | Err
    per application).  Reference: post-order, left to right, stop at the first failing application, which is returned; each operator is applied once to
    the results of its children.  Independent of how the evaluator walks the tree (recursion, explicit stack, iterator adaptors)."""
    _, forest, rot, mutable, timeout_ms, seed, pid = u
    C = ctx()
    counter = [0]
    nodes = []          # pre-order: (operator value, children indices)

    def build(shape, depth):
        i = counter[0]
        counter[0] += 1
        nodes.append(None)
        kids = [build(s, depth + 1) for s in shape]
        if kids:
            opv = make_op(C, WALK_OPS[(rot + i) % len(WALK_OPS)])
        else:
            opv = C.operator('Const', C.v_int(1000 + i)) if (i + rot) % 3 else C.operator('VariableIdentifierRead', sstr('v%d' % i))
        nodes[i] = (opv, [k[0] for k in kids])
        return (i, C.node(copy_value(opv), [k[1] for k in kids]))
    top_i, top = build(forest, 0)
    n = len(nodes)
    fname = 'eval_with_context_mut' if mutable else 'eval_with_context'
    body = C.method('Node', fname)
    ex = C.new_exec()

    def apply_stub(ex_, st, c, args):
        j = len([e for e in st.log if e[0] == 'apply'])
        sel = z3.Bool('apply%d_ok' % j)
        tag = ex_.branch(st, [(sel, 'OK'), (z3.Not(sel), 'ERR')])
        r = ok(C.v_int(z3.BitVec('apply%d_value' % j, 64))) if tag == 'OK' else err(Adt('EvalexprError', C.VI('EvalexprError', 'CustomMessage'), [sstr('apply %d failed' % j)]))
        st.log.append(('apply', c.split('::')[-1], copy_value(ex_.deref_all(args[0])), copy_value(ex_.deref_all(args[1])), args[2]))
        st.notes.append(('apply', tag, r))
        return r
    ex.overrides.append((re.compile(r'operator::Operator::eval(_mut)?'), apply_stub))
    holder = {}

    def mkargs(st):
        holder['ctx'] = ref_to(st, C.hashmap_context(), mut=True)
        return [ref_to(st, top), holder['ctx']]
    t0 = time.time()
    ex2, outs = C.run(body, mkargs, ex=ex)
    res.exec_s += time.time() - t0
    res.feas_queries += ex.nq
    res.bodies |= ex.bodies_used
    res.models |= ex.models_used
    res.paths += len(outs)
    pr = checklib.Prover(res, timeout_ms, CVC5_RATE[0], random.Random(zlib.crc32(repr(u).encode()) ^ checklib.env_seed()))
    # reference order of applications: post-order
    order = []

    def post(i):
        for k in nodes[i][1]:
            post(k)
        order.append(i)
    post(top_i)
    name = 'Node::%s on the tree %s (operators rotated by %d)' % (fname, forest, rot)
    for o in outs:
        res.nontrivial_paths += 1
        res.obligations += 1
        evs = [e for e in o.log if e[0] == 'apply']
        notes = [x for x in o.state.notes if x[0] == 'apply']
        why = None
        results = {}
        failed = None
        if o.kind != 'return':
            why = 'panic: %s' % o.value
        else:
            for j, (e, nt) in enumerate(zip(evs, notes)):
                if j >= len(order):
                    why = 'more operator applications than nodes'
                    break
                i = order[j]
                opv, kids = nodes[i]
                if e[1] != ('eval_mut' if mutable else 'eval'):
                    why = 'application %d goes through Operator::%s' % (j, e[1])
                    break
                if not identical(e[2], opv):
                    why = 'application %d is not the operator of node %d (post-order)' % (j, i)
                    break
                want_args = [results.get(k) for k in kids]
                if None in want_args or len(e[3].items) != len(want_args) or not all(identical(a, w) for a, w in zip(e[3].items, want_args)):
                    why = 'arguments of application %d are not the results of the children of node %d, in order' % (j, i)
                    break
                if not (isinstance(e[4], Ref) and e[4].cell.id == holder['ctx'].cell.id):
                    why = 'application %d uses another context' % j
                    break
                if nt[1] == 'ERR':
                    failed = nt[2]
                    if j != len(evs) - 1:
                        why = 'evaluation continues after the failing application %d' % j
                    break
                results[i] = nt[2].fields[0]
            if why is None:
                if failed is not None:
                    if not identical(o.value, failed):
                        why = 'the first failing application is not the result'
                elif len(evs) != len(order):
                    why = '%d operator applications, expected %d' % (len(evs), len(order))
                elif not identical(o.value, ok(results[top_i])):
                    why = 'the result is not the result of the top operator'
        if why is None:
            res.discharged += 1
            continue
        feas, model = pr.feasible(o.pc)
        if feas is None:
            res.unknown.append(name)
        elif not feas:
            res.discharged += 1
        else:
            res.sat.append(dict(key='tree-walk: %s' % re.sub(r'\d+', 'N', why)[:70], walk=True, forest=str(forest), mutable=mutable, why=why,
                                outcomes=[x[1] for x in notes], witness='%s with application outcomes %s: %s' % (name, [x[1] for x in notes], why)))
    if len(res.samples) < 1 and outs:
        res.samples.append(dict(unit=name, nodes=n, paths=len(outs)))


# ---------------------------------------------------------------- end-to-end confirmation + replay (realisation of stub behaviours)
E2E = [
    # (expression, functions, variables) : result, final context and call log must match the reference interpreter below
    ('f(1) + g(2)', {'f': 'log', 'g': 'log'}, {}),
    ('f(1) + bad(2) + g(3)', {'f': 'log', 'g': 'log', 'bad': 'fail'}, {}),
    ('(x = 1, y = x)', {}, {}),
    ('x = 1; h(x); x = 2', {'h': 'log'}, {}),
    ('a = 1; missing; b = 2', {}, {}),
    ('false && g(true)', {'g': 'log'}, {}),
    ('true || g(false)', {'g': 'log'}, {}),
    ('f(1) + 1 / 0 + g(2)', {'f': 'log', 'g': 'log'}, {}),
    ('x += f(2); x', {'f': 'log'}, {'x': ('Int', 5)}),
    ('(f(1), bad(2), g(3))', {'f': 'log', 'g': 'log', 'bad': 'fail'}, {}),
    ('f(g(1))', {'f': 'log', 'g': 'log'}, {}),
    ('t = (f(1), g(2)); f(3)', {'f': 'log', 'g': 'log'}, {}),
]


def replay_ce(ce):
    """realise the step counterexample natively: a hand-built node (public operator_mut / children_mut API) of the same operator whose
    k children are calls to recording user functions c0..c{k-1} that return a value of the chosen kind or fail; compare the call log
    and the error with the reference: strict left-to-right, stop at the first failing child"""
    if ce.get('walk'):
        return replay_walk(ce)
    op = ce['operator']
    k = ce['children']
    outcomes = dict((i, t) for i, t in ce['child_outcomes'] if i >= 0)
    funcs = {}
    want_log = []
    failed = False
    for i in range(k):
        t = outcomes.get(i, 'Int')
        name = 'c%d' % i
        if t == 'ERR':
            funcs[name] = 'fail'
        else:
            funcs[name] = 'const:' + {'Int': 'I:%d' % (i + 1), 'Boolean': 'B:0' if op == 'And' else 'B:1', 'Float': 'F:3ff0000000000000', 'String': 'S:61',
                                       'Tuple': 'T(I:1)', 'Empty': 'E'}[t]
        if not failed:
            want_log.append(name)
            if t == 'ERR':
                failed = True
    ck = ce.get('child_kind', 'Const')
    if ck == 'Identical':
        # every child is the same call `same(7)`: the reference evaluates each of the k occurrences
        funcs['same'] = 'log'
        want_log = ['same'] * k
        failed = False
    elif ck == 'TupleArgs':
        # each child is the argument list `(c_i a(i), c_i b(i), c_i c(i))`: a boolean, then two integers -- the shape of `if(cond, x, y)`; the reference
        # evaluates all three calls of every child in order, stopping at the first failing call (a failing child fails in its first call)
        wl = []
        failed = False
        for i in range(k):
            if failed:
                break
            if funcs.pop('c%d' % i) == 'fail':
                funcs['c%da' % i] = 'fail'
                wl.append('c%da' % i)
                failed = True
            else:
                funcs['c%da' % i] = 'const:B:1'
                funcs['c%db' % i] = 'const:I:1'
                funcs['c%dc' % i] = 'const:I:2'
                wl += ['c%da' % i, 'c%db' % i, 'c%dc' % i]
        for i in range(k):
            funcs.pop('c%d' % i, None)
        want_log = wl
    elif ck == 'TargetThenCall':
        # child 0 is the (unbound) write target `v0`: no call, never fails; the reference still evaluates every later child in order
        funcs.pop('c0', None)
        want_log = []
        failed = False
        for i in range(1, k):
            want_log.append('c%d' % i)
            if funcs.get('c%d' % i) == 'fail':
                failed = True
                break
    leaf_fail = None
    ck_arg = ce.get('child_kind', 'Const')
    lit_fail = None
    if ck == 'Literal':
        funcs = {}
        want_log = []
        failed = False
        # a child the path never evaluated has no recorded outcome: natively it is made a failing one (the reference evaluates it, so its error must win)
        mask = ''.join('1' if outcomes.get(i, 'ERR') == 'ERR' else '0' for i in range(k))
        ck_arg = 'Literal:' + mask
        if '1' in mask:
            lit_fail = mask.index('1')
    if ck in ('VariableIdentifierRead', 'VariableIdentifierWrite'):
        # leaf children make no calls; a failing read is realised by an unbound variable, a write target never fails
        funcs = {}
        want_log = []
        failed = False
        if ck == 'VariableIdentifierRead':
            mask = ''.join('1' if outcomes.get(i, 'ERR') == 'ERR' else '0' for i in range(k))
            ck_arg = 'VariableIdentifierRead:' + mask
            if '1' in mask:
                leaf_fail = 'unbound%d' % mask.index('1')
    funcs['x'] = 'log'
    entry = 'optree_mut' if ce['mutable'] else 'optree_ro'
    text = replay.case_text('c', entry, '%s %d %s' % (op, k, ck_arg), funcs=list(funcs.items()), vars=[('x', ('Int', 1))])
    details = []
    bad = False
    for prof in ('dev', 'release'):
        out = replay.run_cases(text, prof)['c']
        got_log = [n for n, a in out.get('log', []) if n != 'x']
        res_ = out.get('result')
        okk = got_log == want_log
        if lit_fail is not None:
            okk = okk and bool(res_ and res_[0] == 'Err' and res_[1] == 'DivisionError')
        elif leaf_fail is not None:
            okk = okk and bool(res_ and res_[0] == 'Err' and res_[1] == 'VariableIdentifierNotFound' and res_[2] == ('String', leaf_fail))
        elif failed and ck == 'TupleArgs':
            okk = okk and bool(res_ and res_[0] == 'Err' and res_[1] == 'CustomMessage')
        elif failed:
            okk = okk and bool(res_ and res_[0] == 'Err' and res_[1] == 'CustomMessage' and res_[3] == 'Error: fail:%s' % want_log[-1])
        else:
            arity = {'Neg': 1, 'Not': 1, 'Const': 0, 'VariableIdentifierWrite': 0, 'VariableIdentifierRead': 0, 'FunctionIdentifier': 1}.get(op.split(':')[0], 2)
            if op not in ('RootNode', 'Tuple', 'Chain') and arity != k:
                # all children succeeded: the operator must have been applied, and a fixed-arity operator rejects a wrong argument count
                okk = okk and bool(res_ and res_[0] == 'Err' and res_[1] == 'WrongOperatorArgumentAmount')
        details.append('%s: %s node with %d children: call log %s (reference %s), result %s' % (prof, op, k, got_log, want_log, res_))
        bad = bad or not okk
    return ('reproduced' if bad else 'not_reproduced'), details


def replay_walk(ce):
    """realise a tree-walk counterexample natively: the same tree shape built from recording user functions (node i = call `n<i>(children...)`), the
    j-th application in post-order fails; expected: calls in post-order up to and including the failing one, its error returned (or success)"""
    import ast
    forest = ast.literal_eval(ce['forest'])
    counter = [0]
    order = []

    def build(shape):
        i = counter[0]
        counter[0] += 1
        kids = [build(s) for s in shape]
        order.append(i)
        return 'n%d(%s)' % (i, ', '.join(kids) if kids else '0')
    expr = build(forest)
    n = counter[0]
    details = []
    bad = False
    # the same tree with an assignment at every leaf: under a mutable context every operator application must go through the mutable evaluator
    counter[0] = 0
    order2 = []
    leaves = []

    def build_assign(shape):
        i = counter[0]
        counter[0] += 1
        kids = [build_assign(s) for s in shape]
        order2.append(i)
        if not kids:
            leaves.append(i)
            return '(v%d = n%d(0))' % (i, i)
        return 'n%d(%s)' % (i, ', '.join(kids))
    expr_a = build_assign(forest)
    for prof in ('dev', 'release'):
        funcs = [('n%d' % i, 'log') for i in range(n)]
        o = replay.run_cases(replay.case_text('a', 'eval_with_context_mut', expr_a, funcs=funcs), prof)['a']
        got = [nm for nm, a in o.get('log', [])]
        want = ['n%d' % i for i in order2]
        r = o.get('result')
        okk = got == want and bool(r) and r[0] == 'Ok' and all(('v%d' % i) in o.get('vars', {}) for i in leaves)
        if not okk:
            bad = True
            details.append('%s eval_with_context_mut: `%s`: calls %s (expected %s), result %s, variables %s' % (prof, expr_a, got, want, r, sorted(o.get('vars', {}))))
    for prof in ('dev', 'release'):
        for entry in ('eval_with_context_mut', 'eval_with_context'):
            for fail_at in [None] + list(range(n)):
                funcs = [('n%d' % i, 'fail' if (fail_at is not None and order[fail_at] == i) else 'log') for i in range(n)]
                o = replay.run_cases(replay.case_text('w', entry, expr, funcs=funcs), prof)['w']
                got = [nm for nm, a in o.get('log', [])]
                want = ['n%d' % i for i in (order if fail_at is None else order[:fail_at + 1])]
                r = o.get('result')
                okk = got == want and bool(r) and ((fail_at is None and r[0] == 'Ok') or (fail_at is not None and r[0] == 'Err' and r[1] == 'CustomMessage'))
                if not okk:
                    bad = True
                    details.append('%s %s: `%s` with the %s application failing: calls %s (expected %s), result %s' % (prof, entry, expr, fail_at, got, want, r))
    return ('reproduced' if bad else 'not_reproduced'), details[:6] or ['the realised tree is walked in post-order with first-error-wins natively']


def e2e_check(res):
    """small end-to-end confirmation through the native crate: call log + result + final context vs a reference interpreter
    (a few concrete programs; not the deciding step, reported in evidence)"""
    text = ''
    for i, (expr, funcs, vars_) in enumerate(E2E):
        text += replay.case_text('e%d' % i, 'eval_with_context_mut', expr, funcs=list(funcs.items()), vars=list(vars_.items()))
    out = replay.run_cases(text, 'dev')
    want = {
        0: (['f', 'g'], 'Ok'), 1: (['f', 'bad'], 'Err'), 2: ([], 'Ok'), 3: (['h'], 'Ok'), 4: ([], 'Err'), 5: (['g'], 'Ok'), 6: (['g'], 'Ok'),
        7: (['f'], 'Err'), 8: (['f'], 'Ok'), 9: (['f', 'bad'], 'Err'), 10: (['g', 'f'], 'Ok'), 11: (['f', 'g', 'f'], 'Ok'),
    }
    bad = []
    for i, (wl, wr) in want.items():
        o = out['e%d' % i]
        gl = [n for n, a in o.get('log', [])]
        if gl != wl or (o.get('result') or ('?',))[0] != wr:
            bad.append((E2E[i][0], gl, o.get('result')))
    # final-context spot checks
    if out['e4']['vars'].get('a') != ('Int', 1) or 'b' in out['e4']['vars']:
        bad.append(('a = 1; missing; b = 2', out['e4']['vars']))
    if out['e3']['vars'].get('x') != ('Int', 2):
        bad.append(('x = 1; h(x); x = 2', out['e3']['vars']))
    return bad


def make_units(tier, seed, pid):
    timeout_ms = 60000 if tier == 'quick' else 600000
    units = []
    maxk = 3 if tier == 'quick' else 4
    for op in OPERATORS + ['FunctionIdentifier:%s' % n for n in FUNCTION_NAMES[1:]]:
        for k in range(0, maxk + 1):
            if k >= 3 and tier == 'quick' and op not in ('Tuple', 'Chain', 'Add', 'And', 'Or', 'Assign', 'FunctionIdentifier', 'RootNode'):
                continue
            for mutable in (True, False):
                for ck in (CHILD_KINDS if k >= 1 else ['Const']):
                    if tier == 'quick' and k >= 3 and ck != 'Const':
                        continue
                    units.append((op, k, mutable, timeout_ms, seed, pid, ck))
    wn = 4 if tier == 'quick' else 6
    for nn in range(0, wn + 1):
        for f in forests(nn):
            for rot in (range(0, len(WALK_OPS), 4) if (tier == 'quick' or nn >= 5) else range(len(WALK_OPS))):
                for mutable in (True, False):
                    units.append(('walk', f, rot, mutable, timeout_ms, seed, pid))
    return units, maxk, timeout_ms


def main():
    t0 = time.time()
    tier = checklib.env_tier()
    seed = checklib.env_seed()
    CVC5_RATE[0] = 0.002 if tier == 'quick' else 0.02
    frontend.load(overflow_checks=True)
    units, maxk, timeout_ms = make_units(tier, seed, PID)
    random.Random(seed).shuffle(units)
    results = checklib.run_units(checklib.safe_worker(unit), units)
    extra = checklib.UnitResult('end-to-end confirmation (native)')
    bad = e2e_check(extra)
    extra.obligations = len(E2E)
    extra.discharged = len(E2E) - len(bad)
    for b in bad:
        extra.sat.append(dict(key='end-to-end order/effects differ', witness=str(b), e2e=True))
    results.append(extra)

    def rp(ce):
        if ce.get('e2e'):
            return 'reproduced', 'observed natively'
        return replay_ce(ce)
    checklib.finish(PID, results, t0=t0, replay_fn=rp,
                    rule='inductive step: Node::eval_with_context and Node::eval_with_context_mut on a node of each of the %d operator variants with k = 0..%d children; each '
                         'child evaluation is a havoc stub returning Ok(value of any of the 6 types, free payload) or Err, Operator::eval[_mut] is a havoc stub; a path = one '
                         'assignment of child outcome classes; obligation per path: events are child 0..j in order up to the first failure, its error is returned and the '
                         'operator is not applied, else the operator is applied once, last, to the children\'s values in order with the caller\'s context, and its result returned'
                         % (len(OPERATORS), maxk),
                    explanation='modular bounded symbolic verification (no bound on expression size or depth: every node of every tree is evaluated by the verified body; induction on '
                                'height); the fan-out k is the only bound. Non-short-circuiting of && / || and operand handling of each operator: C03 / C10 units on Operator::eval',
                    assumptions=['the loop body over children is the same for k beyond the bound', 'user functions are observed only through Context::call_function (C09)',
                                 'op-assign reads the variable at application time: C04 obligations'],
                    bounds=dict(operators=len(OPERATORS), max_children=maxk, value_kinds=VALUE_KINDS, solver_timeout_ms=timeout_ms),
                    extra=dict(end_to_end_programs=len(E2E)))


if __name__ == '__main__':
    main()
