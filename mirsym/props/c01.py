"""C01 — the library never panics, whatever the input.

Decided per unit as a reachability question: is any panic point (MIR assert, unreachable!, panicking std model, explicit panic)
feasible?  Units: every builtin closure on every argument shape; Operator::eval / eval_mut for all operator variants on argument
vectors of length 0..3; the tree builder on all token-kind sequences within the bound; the tokenizer on free characters;
Display of values / tokens / errors / trees.  Every unit runs with integer-overflow checks on and off."""
import zlib
import sys, os, time, random, itertools
import z3
sys.path.insert(0, os.path.dirname(os.path.dirname(os.path.abspath(__file__))))
import frontend, checklib, replay, models
from harness import *
from shapes import *
from skel import *
import c10, c13

PID = 'C01'
CVC5_RATE = [0.01]
OPERATORS = ['RootNode', 'Add', 'Sub', 'Neg', 'Mul', 'Div', 'Mod', 'Exp', 'Eq', 'Neq', 'Gt', 'Lt', 'Geq', 'Leq', 'And', 'Or', 'Not',
             'Assign', 'AddAssign', 'SubAssign', 'MulAssign', 'DivAssign', 'ModAssign', 'ExpAssign', 'AndAssign', 'OrAssign', 'Tuple', 'Chain',
             'Const', 'VariableIdentifierWrite', 'VariableIdentifierRead', 'FunctionIdentifier']
_C = {}


def ctx(ofc):
    if ofc not in _C:
        _C[ofc] = Ctx(frontend.load(overflow_checks=ofc), overflow_checks=ofc)
    return _C[ofc]


def record_panics(res, pr, name, outs, witness_fn, key_fn, extra=None):
    for i, o in enumerate(outs):
        res.obligations += 1
        if o.kind != 'panic':
            res.discharged += 1
            continue
        feas, model = pr.feasible(o.pc)
        if feas is None:
            res.unknown.append('%s path %d' % (name, i))
        elif not feas:
            res.discharged += 1
        else:
            d = dict(key=key_fn(o), got='panic: %s' % o.value, witness=witness_fn(model))
            if extra:
                d.update(extra(model))
            res.sat.append(d)


def unit(u, res):
    kind = u[0]
    if kind == 'builtin':
        return c10.unit(u[1], res)
    if kind == 'operator':
        return unit_operator(u, res)
    if kind == 'tree':
        return unit_tree(u, res)
    if kind == 'lex':
        return unit_lex(u, res)
    if kind == 'display':
        return unit_display(u, res)
    if kind == 'e2e':
        return unit_lex(u, res, entry='eval')
    if kind == 'lexclass':
        return unit_lexclass(u, res)
    raise ValueError(kind)


# ---------------------------------------------------------------- Operator::eval / eval_mut
def unit_operator(u, res):
    _, opname, shape_lists, ofc, timeout_ms, seed = u
    C = ctx(ofc)
    pr = checklib.Prover(res, timeout_ms, CVC5_RATE[0], random.Random(zlib.crc32(repr(u).encode()) ^ checklib.env_seed()))
    for shapes in shape_lists:
        for ctxkind in ('hashmap', 'empty', 'emptyb'):
            cons = []
            vals = []
            specs = []
            for i, sh in enumerate(shapes):
                v, s = make_value(C, sh, 'v%d' % i, cons)
                vals.append(v)
                specs.append(s)
            if opname == 'Const':
                cv, _ = make_value(C, 'I', 'k', cons)
                op = C.operator('Const', cv)
            elif opname in ('VariableIdentifierWrite', 'VariableIdentifierRead'):
                op = C.operator(opname, sstr('x'))
            elif opname == 'FunctionIdentifier':
                op = C.operator(opname, sstr('f'))
            else:
                op = C.operator(opname)
            xv, xspec = make_value(C, 'I', 'ctxx', cons)
            if ctxkind == 'hashmap':
                mutable = True
                mk = lambda: C.hashmap_context(variables=[('x', xv), ('s', C.v_str('a'))], disabled=z3.Bool('dis'))
            else:
                mutable = False
                mk = lambda: C.empty_context(with_builtins=(ctxkind == 'emptyb'))
            body = C.method('Operator', 'eval_mut' if mutable else 'eval')
            name = '%s%s in %s' % (opname, shapes, ctxkind)
            t0 = time.time()
            try:
                ex, outs = C.run(body, lambda st: [ref_to(st, op), ref_to(st, VecV(vals)), ref_to(st, mk(), mut=True)], pc=cons)
            except Unsupported as x:
                res.inconclusive.append('%s: unsupported: %s @ %s' % (name, x, getattr(x, 'where', None)))
                continue
            res.exec_s += time.time() - t0
            res.feas_queries += ex.nq
            res.bodies |= ex.bodies_used
            res.models |= ex.models_used
            res.paths += len(outs)
            res.nontrivial_paths += sum(1 for o in outs if cons)
            record_panics(res, pr, name, outs, lambda m: '%s applied to %s (%s context)' % (opname, [spec_concrete(s, m) for s in specs], ctxkind),
                          lambda o: 'panic in Operator::eval %s' % opname,
                          extra=lambda m: dict(opapply=dict(op=opname, args=[spec_concrete(s, m) for s in specs], ctxkind=ctxkind, ctxx=spec_concrete(xspec, m))))
            if len(res.samples) < 1 and cons:
                res.samples.append(dict(unit=name, overflow_checks=ofc, paths=len(outs), outcomes=sorted(set(o.kind for o in outs))))


# ---------------------------------------------------------------- tree builder sweep
def unit_tree(u, res):
    _, seqs, ofc, timeout_ms, seed = u
    C = ctx(ofc)
    pr = checklib.Prover(res, timeout_ms, CVC5_RATE[0], random.Random(zlib.crc32(repr(u).encode()) ^ checklib.env_seed()))
    for seq in seqs:
        t0 = time.time()
        try:
            S, ex, outs = c13_run(C, seq)
        except Unsupported as x:
            res.inconclusive.append('tree %s: unsupported: %s @ %s' % (' '.join(seq), x, getattr(x, 'where', None)))
            continue
        res.exec_s += time.time() - t0
        res.feas_queries += ex.nq
        res.bodies |= ex.bodies_used
        res.models |= ex.models_used
        res.paths += len(outs)
        res.nontrivial_paths += len(outs) if S.slots else 0
        record_panics(res, pr, 'tree ' + S.text(), outs, lambda m: S.render(m), lambda o: 'panic in tree builder',
                      extra=lambda m: dict(source=S.render(m)))
    if seqs and len(res.samples) < 1:
        res.samples.append(dict(unit='tokens_to_operator_tree', kinds=' '.join(seqs[0]), overflow_checks=ofc))


def c13_run(C, seq):
    names = 'abcdefgh'
    spec = []
    i = 0
    for t in seq:
        k = c13.KIND[t]
        if k == 'id':
            spec.append('id:' + names[i % 8])
            i += 1
        else:
            spec.append(k)
    S = Skeleton(C, spec)
    ex, outs = S.run()
    return S, ex, outs


# ---------------------------------------------------------------- tokenizer on free characters
def unit_lex(u, res, entry='tokenize'):
    _, templates, ofc, timeout_ms, seed = u
    C = ctx(ofc)
    pr = checklib.Prover(res, timeout_ms, CVC5_RATE[0], random.Random(zlib.crc32(repr(u).encode()) ^ checklib.env_seed()))
    for tmpl in templates:
        cons = []
        chars = []
        free = []
        klass = None
        if isinstance(tmpl, tuple):
            tmpl, klass = tmpl
        for i, ch in enumerate(tmpl):
            if ch == '\x00':
                v = z3.BitVec('c%d' % i, 32)
                cons.append(valid_scalar(v))
                chars.append(Int(v, False))
                free.append(v)
            else:
                chars.append(mkchar(ch))
        if klass is not None:
            cons.append(first_char_class(free[0], klass))
        name = '%s %r%s' % (entry, tmpl.replace('\x00', '?'), '' if klass is None else ' [first char class %d]' % klass)
        t0 = time.time()
        try:
            ex, outs = C.run(entry, lambda st: [ref_to(st, SStr(chars))], pc=cons)
        except Unsupported as x:
            res.inconclusive.append('%s: unsupported: %s @ %s' % (name, x, getattr(x, 'where', None)))
            continue
        res.exec_s += time.time() - t0
        res.feas_queries += ex.nq
        res.bodies |= ex.bodies_used
        res.models |= ex.models_used
        res.paths += len(outs)
        res.nontrivial_paths += len(outs) if free else 0

        def wit(m):
            out = []
            for c in chars:
                t = z3.simplify(m.eval(c.t, model_completion=True))
                out.append(chr(t.as_long()))
            return ''.join(out)
        record_panics(res, pr, name, outs, lambda m: repr(wit(m)), lambda o: 'panic in tokenizer', extra=lambda m: dict(source=wit(m)))
        if len(res.samples) < 1:
            res.samples.append(dict(unit=name, free_chars=len(free), paths=len(outs), overflow_checks=ofc))


FIRST_CLASSES = ['"', '/', 'ws', '+-*%^', '=!<>&|', '(),;', 'rest']


def first_char_class(v, k):
    """partition of all scalars into 7 classes (used only to spread one big template over several workers)"""
    def inset(s):
        return z3.Or(*[v == ord(ch) for ch in s])
    sets = [inset('"'), inset('/'), is_ws(v), inset('+-*%^'), inset('=!<>&|'), inset('(),;')]
    if k < 6:
        return sets[k]
    return z3.Not(z3.Or(*sets))


# ---------------------------------------------------------------- Display
def unit_display(u, res):
    _, what, ofc, timeout_ms, seed = u
    C = ctx(ofc)
    pr = checklib.Prover(res, timeout_ms, CVC5_RATE[0], random.Random(zlib.crc32(repr(u).encode()) ^ checklib.env_seed()))
    cons = []
    if what[0] == 'value' and what[1] == 'LONG':
        target = C.v_tuple([C.v_str(long_str(cons, 'val')), C.v_tuple([C.v_str(long_str(cons, 'val2', 40))])])
    elif what[0] == 'value':
        v, spec = make_value(C, what[1], 'd', cons)
        target = v
    elif what[0] == 'error':
        ev = what[1]
        fields = C.meta.enums['EvalexprError'][ev][1]
        target = None
        name = C.meta.enums['EvalexprError'][ev][0]
        target = make_error(C, name, cons, long=(len(what) > 2 and what[2] == 'long'))
        if target is None:
            return
    elif what[0] == 'operator':
        nm = what[1]
        if nm == 'Const':
            v, _ = make_value(C, 'F', 'k', cons)
            target = C.operator('Const', v)
        elif nm in ('VariableIdentifierWrite', 'VariableIdentifierRead', 'FunctionIdentifier'):
            target = C.operator(nm, sstr('id'))
        else:
            target = C.operator(nm)
    elif what[0] == 'token':
        nm = what[1]
        payload = {'Identifier': [sstr('id')], 'Float': [Fl(z3.FP('tf', F64))], 'Int': [Int(z3.BitVec('ti', 64), True)],
                   'Boolean': [z3.Bool('tb')], 'String': [sstr('s"x')]}.get(nm, [])
        target = C.token(nm, *payload)
    elif what[0] == 'partial':
        nm = what[1]
        if nm == 'Token':
            target = Adt('PartialToken', C.VI('PartialToken', 'Token'), [C.token('LBrace')])
        elif nm == 'Literal':
            target = Adt('PartialToken', C.VI('PartialToken', 'Literal'), [sstr('ab')])
        else:
            target = Adt('PartialToken', C.VI('PartialToken', nm), [])
    elif what[0] == 'node':
        a, _ = make_value(C, 'I', 'n', cons)
        target = C.node(C.operator('RootNode'), [C.node(C.operator('Add'), [C.node(C.operator('Const', a)), C.node(C.operator('VariableIdentifierRead', sstr('x')))])])
    name = 'Display %s' % (what,)
    body = models.synth_static(C.new_exec(), '__to_string')
    t0 = time.time()
    try:
        ex, outs = C.run(body, lambda st: [ref_to(st, target)], pc=cons)
    except Unsupported as x:
        res.inconclusive.append('%s: unsupported: %s @ %s' % (name, x, getattr(x, 'where', None)))
        return
    res.exec_s += time.time() - t0
    res.feas_queries += ex.nq
    res.bodies |= ex.bodies_used
    res.models |= ex.models_used
    res.paths += len(outs)
    res.nontrivial_paths += len(outs) if cons or what[0] in ('token',) else 0
    def native_spec(model):
        # how to rebuild the formatted object natively (runner entry `display`)
        if what[0] == 'value':
            return dict(display=dict(what='value', args=[render_value(C.meta, target, model)]))
        if what[0] == 'error' and isinstance(target, Adt):
            args = []
            for fld in target.fields:
                if isinstance(fld, SStr):
                    args.append(('String', render_str(fld, model)))
                elif isinstance(fld, Adt) and fld.ty == 'Value':
                    args.append(render_value(C.meta, fld, model))
            return dict(display=dict(what='error:%s' % C.meta.enums['EvalexprError'][target.variant][0], args=args))
        return {}
    record_panics(res, pr, name, outs, lambda m: name + ((' ' + repr(native_spec(m).get('display', {}).get('args'))[:200]) if what[0] in ('value', 'error') else ''),
                  lambda o: 'panic in Display', extra=native_spec)
    if len(res.samples) < 1:
        o = outs[0] if outs else None
        res.samples.append(dict(unit=name, rendered=repr(o.value) if o is not None and o.kind == 'return' else None))


def long_str(cons, tag, n=31):
    """a string of n ASCII characters, one completely free character, and a tail: byte-offset arithmetic on it can hit the middle of a character"""
    v = z3.BitVec('long_%s' % tag, 32)
    cons.append(valid_scalar(v))
    return SStr([mkchar('a')] * n + [Int(v, False)] + [mkchar('b'), mkchar('c')])


def make_error(C, name, cons, long=False):
    """one instance of each EvalexprError variant with symbolic payloads"""
    VI = C.VI
    if long:
        ls = lambda t: long_str(cons, t)
        lv = lambda t: C.v_tuple([C.v_str(long_str(cons, t + 'v')), C.v_int(z3.BitVec('lv_' + t, 64))])
        f2 = {
            'VariableIdentifierNotFound': lambda: [ls('v')], 'FunctionIdentifierNotFound': lambda: [ls('f')], 'CustomMessage': lambda: [ls('c')],
            'IllegalEscapeSequence': lambda: [ls('e')], 'InvalidRegex': lambda: [ls('r'), ls('m')],
            'ExpectedString': lambda: [lv('a')], 'ExpectedInt': lambda: [lv('a')], 'TypeError': lambda: [VecV([Adt('ValueType', 0, [])]), lv('a')],
            'AdditionError': lambda: [lv('a'), lv('b')],
            'UnmatchedPartialToken': lambda: [Adt('PartialToken', VI('PartialToken', 'Literal'), [ls('p')]), some(Adt('PartialToken', VI('PartialToken', 'Literal'), [ls('q')]))],
        }.get(name)
        if f2 is None:
            return None
        return Adt('EvalexprError', VI('EvalexprError', name), f2())
    val = lambda p: make_value(C, 'T[I,S1]', p, cons)[0]
    u = lambda n: usize(n)
    f = {
        'WrongOperatorArgumentAmount': lambda: [u(2), u(1)],
        'WrongFunctionArgumentAmount': lambda: [Adt('RangeInclusive', 0, [u(1), u(2), z3.BoolVal(False)]), u(3)],
        'ExpectedString': lambda: [val('e')], 'ExpectedInt': lambda: [val('e')], 'ExpectedFloat': lambda: [val('e')],
        'ExpectedNumber': lambda: [val('e')], 'ExpectedNumberOrString': lambda: [val('e')], 'ExpectedBoolean': lambda: [val('e')],
        'ExpectedTuple': lambda: [val('e')], 'ExpectedEmpty': lambda: [val('e')],
        'ExpectedFixedLengthTuple': lambda: [u(2), val('e')],
        'ExpectedRangedLengthTuple': lambda: [Adt('RangeInclusive', 0, [u(2), u(3), z3.BoolVal(False)]), val('e')],
        'AppendedToLeafNode': lambda: [], 'PrecedenceViolation': lambda: [],
        'VariableIdentifierNotFound': lambda: [sstr('v')], 'FunctionIdentifierNotFound': lambda: [sstr('f')],
        'TypeError': lambda: [VecV([Adt('ValueType', 0, []), Adt('ValueType', 2, [])]), val('e')],
        'WrongTypeCombination': lambda: [C.operator('Add'), VecV([Adt('ValueType', 0, []), Adt('ValueType', 3, [])])],
        'UnmatchedLBrace': lambda: [], 'UnmatchedRBrace': lambda: [], 'UnmatchedDoubleQuote': lambda: [], 'MissingOperatorOutsideOfBrace': lambda: [],
        'UnmatchedPartialToken': lambda: [Adt('PartialToken', VI('PartialToken', 'Ampersand'), []), some(Adt('PartialToken', VI('PartialToken', 'Literal'), [sstr('a')]))],
        'AdditionError': lambda: [val('a'), val('b')], 'SubtractionError': lambda: [val('a'), val('b')], 'NegationError': lambda: [val('a')],
        'MultiplicationError': lambda: [val('a'), val('b')], 'DivisionError': lambda: [val('a'), val('b')], 'ModulationError': lambda: [val('a'), val('b')],
        'InvalidRegex': lambda: [sstr('re'), sstr('msg')], 'ContextNotMutable': lambda: [], 'IllegalEscapeSequence': lambda: [sstr('\\x')],
        'BuiltinFunctionsCannotBeEnabled': lambda: [], 'BuiltinFunctionsCannotBeDisabled': lambda: [], 'OutOfBoundsAccess': lambda: [],
        'IntFromUsize': lambda: [Int(z3.BitVec('uz', 64), False)], 'IntIntoUsize': lambda: [Int(z3.BitVec('iz', 64), True)],
        'RandNotEnabled': lambda: [], 'CustomMessage': lambda: [sstr('custom')],
    }.get(name)
    if f is None:
        return None
    return Adt('EvalexprError', VI('EvalexprError', name), f())


# ---------------------------------------------------------------- replay
def replay_ce(ce):
    if 'builtin' in ce:
        return c10.replay_ce(ce, c01=True)
    if 'display' in ce:
        d = ce['display']
        details = []
        bad = False
        for prof in ('dev', 'release'):
            ops = ['what %s' % d['what']] + ['arg %s' % replay.enc_value(tuple(a) if isinstance(a, list) else a) for a in d['args']]
            out = replay.run_cases(replay.case_text('d', 'display', '', ops=ops), prof)
            if 'unsupported' in out['d']['lines']:
                return 'not_reproduced', 'runner cannot build %s natively' % d['what']
            p = out['d'].get('panic')
            details.append('%s: %s' % (prof, ('panic: ' + p) if p else 'no panic'))
            bad = bad or bool(p)
        return ('reproduced' if bad else 'not_reproduced'), details
    if 'source' in ce:
        details = []
        bad = False
        for prof in ('dev', 'release'):
            out = replay.run_cases(replay.case_text('b', 'build', ce['source']) + replay.case_text('e', 'eval', ce['source']), prof)
            p = out['b'].get('panic') or out['e'].get('panic')
            details.append('%s: %s' % (prof, p or 'no panic'))
            bad = bad or bool(p)
        return ('reproduced' if bad else 'not_reproduced'), details
    if 'opapply' in ce:
        # a well-formed application of a context-independent operator is realised as source text over variables holding the witness values
        # (i64::MIN has no literal); `x op= b` uses the witness value of the context variable x
        import c03
        d = ce['opapply']
        op = d['op']
        args = [c03.tuple_fix(a) for a in d['args']]
        asg = {'AddAssign': '+=', 'SubAssign': '-=', 'MulAssign': '*=', 'DivAssign': '/=', 'ModAssign': '%=', 'ExpAssign': '^=', 'AndAssign': '&&=', 'OrAssign': '||='}
        expr = None
        if op in c03.SYMBOL and len(args) == (1 if op in ('Neg', 'Not') else 2):
            vars_ = [('a', args[0])] + ([('b', args[1])] if len(args) == 2 else [])
            expr = ('a %s b' % c03.SYMBOL[op]) if len(args) == 2 else ('%sa' % c03.SYMBOL[op])
        elif op in asg and len(args) == 2 and args[0] == ('String', 'x') and d.get('ctxkind') == 'hashmap':
            vars_ = [('x', c03.tuple_fix(d['ctxx'])), ('b', args[1])]
            expr = 'x %s b' % asg[op]
        if expr is not None:
            details = []
            bad = False
            for prof in ('dev', 'release'):
                out = replay.run_cases(replay.case_text('c', 'eval_with_context_mut', expr, vars=vars_), prof)['c']
                p = out.get('panic')
                details.append('%s: `%s` with %s: %s' % (prof, expr, vars_, ('panic: ' + p) if p else 'no panic'))
                bad = bad or bool(p)
            return ('reproduced' if bad else 'not_reproduced'), details
    return 'not_reproduced', 'no native replay for this unit kind (malformed-arity operator application needs a hand-built tree)'


def lex_templates(tier):
    """strings of completely free chars, plus structured inputs with a few free chars among concrete ones"""
    nfree = 3 if tier == 'quick' else 4
    out = []
    for n in range(0, nfree + 1):
        if n >= 3:
            out += [('\x00' * n, k) for k in range(len(FIRST_CLASSES))]
        else:
            out.append('\x00' * n)
    structured = ['"\x00\x00"', '"\\\x00"', '/*\x00\x00*/', '//\x00\n1', '1\x00\x002', 'a\x00=\x001', '1e\x002', '0x\x00\x00', '\x00\x00e-3',
                  '&\x00|\x00', '"\x00', '/\x00\x00', '1.\x00e\x00\x00', 'tr\x00e', '\x00(\x00)\x00']
    if tier != 'quick':
        structured += ['"\x00\x00\x00"', '/*\x00\x00\x00', 'a\x00b\x00c\x00', '\x00\x00=\x00\x00', '1e\x00\x00\x00', '"\\\x00\x00\\\x00"']
    return out + structured


def unit_lexclass(u, res):
    """tokenize a literal whose characters are free inside a character class (digits / hex digits / word characters): long literals at the
    integer-range boundary and long identifiers, which the completely free templates cannot reach"""
    _, spec, ofc, timeout_ms, seed = u
    prefix, cls, n, suffix = spec
    C = ctx(ofc)
    pr = checklib.Prover(res, timeout_ms, CVC5_RATE[0], random.Random(zlib.crc32(repr(u).encode()) ^ checklib.env_seed()))
    cons = []
    chars = [mkchar(ch) for ch in prefix]
    free = []
    for i in range(n):
        v = z3.BitVec('k%d' % i, 32)
        rng = lambda a, b: z3.And(z3.UGE(v, ord(a)), z3.ULE(v, ord(b)))
        if cls == 'digit':
            cons.append(rng('0', '9'))
        elif cls == 'hex':
            cons.append(z3.Or(rng('0', '9'), rng('a', 'f'), rng('A', 'F')))
        else:
            import c06
            cons.append(c06.word_char(v))
        chars.append(Int(v, False))
        free.append(v)
    chars += [mkchar(ch) for ch in suffix]
    name = 'eval %r + %d free %s characters + %r' % (prefix, n, cls, suffix)
    t0 = time.time()
    try:
        ex, outs = C.run('eval', lambda st: [ref_to(st, SStr(chars))], pc=cons)
    except Unsupported as x:
        res.inconclusive.append('%s: unsupported: %s @ %s' % (name, x, getattr(x, 'where', None)))
        return
    res.exec_s += time.time() - t0
    res.feas_queries += ex.nq
    res.bodies |= ex.bodies_used
    res.models |= ex.models_used
    res.paths += len(outs)
    res.nontrivial_paths += len(outs)

    def wit(m):
        return ''.join(chr(z3.simplify(m.eval(c.t, model_completion=True)).as_long()) for c in chars)
    record_panics(res, pr, name, outs, lambda m: repr(wit(m)), lambda o: 'panic in tokenizer / evaluation of a long literal', extra=lambda m: dict(source=wit(m)))
    if len(res.samples) < 1:
        res.samples.append(dict(unit=name, paths=len(outs), overflow_checks=ofc))


def e2e_templates(tier):
    out = ['\x00', '\x00\x00', '1\x002', '\x001', 'a\x00', '(\x00)', '1\x00\x002', 'shl(1,\x00\x00)', 'len("\x00\x00")', 'str::substring("\x00\x00",1)', '"\x00"+"\x00"',
           '-\x00', 'max(\x00,2)', 'a=\x00;a', '1\x00(2)', '\x00(\x00']
    if tier != 'quick':
        out += [('\x00\x00\x00', k) for k in range(len(FIRST_CLASSES))] + ['1\x00\x00\x002', 'if(\x00,\x00,\x00)', 'math::abs(-\x00\x00)', '(\x00,\x00;\x00)', 'a\x00=\x00\x00']
    return out


def main():
    t0 = time.time()
    tier = checklib.env_tier()
    seed = checklib.env_seed()
    CVC5_RATE[0] = 0.01 if tier == 'quick' else 0.1
    timeout_ms = 60000 if tier == 'quick' else 600000
    units = []
    bunits, shapes, _ = c10.make_units(tier, seed, 'c01')
    units += [('builtin', b) for b in bunits]
    N = 4 if tier == 'quick' else 5
    seqs = [s for n in range(1, N + 1) for s in itertools.product(c13.ALPHA, repeat=n)]
    random.Random(seed).shuffle(seqs)
    # beyond the exhaustive bound: seed-chosen longer sequences (well-formed, one planted defect, random), 5..9 tokens
    rng = random.Random(seed ^ 0xc01)
    longer = c13.planted_defects(seed, N + 1, N + 4, 150 if tier == 'quick' else 3000)
    for _ in range(150 if tier == 'quick' else 3000):
        longer.append(tuple(c13.gen_wellformed(rng, rng.randint(N + 1, N + 5))))
        longer.append(tuple(rng.choice(c13.ALPHA) for _ in range(rng.randint(N + 1, N + 4))))
    longer = list(dict.fromkeys(longer))
    eshapes = ['I', 'F', 'B', 'S1', 'T1', 'E']
    arglists = [[]] + [[a] for a in eshapes] + [[a, b] for a in eshapes for b in eshapes]
    a3 = [[a, b, c] for a in eshapes for b in eshapes for c in eshapes]
    random.Random(seed).shuffle(a3)
    arglists += a3[:(30 if tier == 'quick' else 216)]
    for ofc in (True, False):
        frontend.load(overflow_checks=ofc)
        # the tree builder contains no integer arithmetic of its own: sweep it under the default (checked) build, and a seed-chosen tenth unchecked
        sel = (seqs + longer) if ofc else seqs[:len(seqs) // 10]
        for i in range(0, len(sel), 24):
            units.append(('tree', sel[i:i + 24], ofc, timeout_ms, seed))
        for op in OPERATORS:
            for i in range(0, len(arglists), 25):
                units.append(('operator', op, arglists[i:i + 25], ofc, timeout_ms, seed))
        tmpls = lex_templates(tier)
        for t in tmpls:
            units.append(('lex', [t], ofc, timeout_ms, seed))
        for spec in [('', 'digit', 19, ''), ('', 'digit', 20, ''), ('0x', 'hex', 16, ''), ('0x', 'hex', 17, ''), ('-', 'digit', 19, ''), ('1e', 'digit', 3, ''), ('', 'digit', 18, '.5'),
                     ('', 'word', 3, ''), ('', 'word', 2, '(1)'), ('x', 'word', 2, ' = 1')] + \
                ([('a' * 30, 'word', 3, ''), ('', 'word', 4, '')] if tier != 'quick' else [('a' * 31, 'word', 2, '')]):
            units.append(('lexclass', spec, ofc, timeout_ms, seed))
        # whole pipeline: eval(string) = tokenize ; build tree ; evaluate in a fresh HashMapContext, with free characters in the source
        for t in e2e_templates(tier):
            units.append(('e2e', [t], ofc, timeout_ms, seed))
        for sh in ['I', 'F', 'B', 'S2', 'E', 'T0', 'T2', 'T[S1,B,F]']:
            units.append(('display', ('value', sh), ofc, timeout_ms, seed))
        nerr = len(ctx(ofc).meta.enums['EvalexprError'])
        for ev in range(nerr):
            units.append(('display', ('error', ev), ofc, timeout_ms, seed))
            units.append(('display', ('error', ev, 'long'), ofc, timeout_ms, seed))
        units.append(('display', ('value', 'LONG'), ofc, timeout_ms, seed))
        for nm, _ in ctx(ofc).meta.enums['Operator']:
            units.append(('display', ('operator', nm), ofc, timeout_ms, seed))
        for nm, _ in ctx(ofc).meta.enums['Token']:
            units.append(('display', ('token', nm), ofc, timeout_ms, seed))
        for nm, _ in ctx(ofc).meta.enums['PartialToken']:
            units.append(('display', ('partial', nm), ofc, timeout_ms, seed))
        units.append(('display', ('node',), ofc, timeout_ms, seed))
    import kani_run
    kh = kani_run.start(tag='C01') if not os.environ.get('C01_ONLY') else None
    only = os.environ.get('C01_ONLY')
    if only:
        units = [x for x in units if x[0] in only.split(',')]
    random.Random(seed).shuffle(units)
    results = checklib.run_units(checklib.safe_worker(unit), units)
    kres = kani_run.join(kh) if kh is not None else dict(ran=False, reason='unit filter active' if only else 'not against /repo')
    if kres.get('ran'):
        kr = checklib.UnitResult('kani kernel harnesses')
        kr.obligations = kres.get('total') or 0
        kr.discharged = kres.get('verified') or 0
        kr.samples.append(dict(unit='Kani: impl EvalexprInt for i64 / DefaultNumericTypes kernels at full width, panic-freedom + i128 specifications', harnesses=kres.get('harnesses')))
        if not kres.get('ok'):
            kr.inconclusive.append('Kani did not verify every kernel harness: %s' % {k: kres.get(k) for k in ('exit', 'verified', 'failed', 'total', 'failed_checks', 'vacuous_cover')})
        results.append(kr)
    checklib.finish(PID, results, t0=t0, replay_fn=replay_ce, extra=dict(kani=kres),
                    rule='units: whole-pipeline eval(source) on %d templates with free characters; %d builtins x %d argument shapes; %d operator variants x argument vectors of length 0..3 x 3 context kinds; all %d token-kind sequences <= %d '
                         'tokens (plus seed-chosen longer ones up to 9 tokens) through the tree builder; tokenizer on %d templates with up to %d completely free characters; Display of every Value shape / error variant / '
                         'operator / token; each with overflow checks on and off; an obligation is one path end: either not a panic point, or a panic point proved infeasible'
                         % (len(e2e_templates(tier)), len(c10.BUILTINS), len(shapes), len(OPERATORS), len(seqs), N, len(lex_templates(tier)), 3 if tier == 'quick' else 4),
                    explanation='bounded symbolic verification of panic-freedom: every MIR assert / unreachable / explicit panic and every panicking branch of a std model '
                                '(unwrap, index, slice boundary, shift and abs under inherited overflow checks, swap_remove) reached on a path yields the query PC, which '
                                'must be unsat; integer kernels are additionally checked on compiled code by Kani (kani/)',
                    assumptions=['inputs within the stated shape / length bounds; the 4096-char inputs of the statement and stack exhaustion are outside the claim',
                                 'user functions do not panic; allocation does not fail',
                                 'std functions are modelled (models.py); their own panic conditions are the documented ones',
                                 'derived Debug output is not executed (opaque)'],
                    bounds=dict(max_tokens=N, free_chars=3 if tier == 'quick' else 4, argument_shapes=len(shapes), overflow_checks=[True, False], solver_timeout_ms=timeout_ms))


if __name__ == '__main__':
    main()
