"""C05 — tuples and chains compose: `,` aggregates, `;` sequences.

Tree half: tokens_to_operator_tree on sequence skeletons whose separators are solver variables over {`,`, `;`}; the tree,
normalised by dropping one-child wrapper root nodes, must equal the reference "chain of tuples" for every separator assignment.
Evaluation half: Operator::eval of Tuple / Chain / RootNode on 0..3 free arguments."""
import sys, os, time, random, itertools
import z3
sys.path.insert(0, os.path.dirname(os.path.dirname(os.path.abspath(__file__))))
import frontend, checklib, replay
from harness import *
from skel import *
from shapes import *

PID = 'C05'


# ---------------------------------------------------------------- skeletons
def gen_elem(n, depth):
    out = []
    if n == 0:
        out.append([])
    if n == 1:
        out.append(['OPD'])
    if n == 2:
        out.append(['PRE', 'OPD'])
        out.append(['tok:Minus', 'OPD'])
    if n == 3:
        out.append(['OPD', 'BIN', 'OPD'])
        out.append(['WRT', 'ASG', 'OPD'])
    if depth > 0 and n >= 2:
        for s in gen_seq(n - 2, depth - 1, min_seps=0):
            out.append(['('] + s + [')'])
    return out


def gen_seq(n, depth, min_seps=1):
    """Elem (SEQ Elem)* with exactly n tokens"""
    out = []
    if min_seps == 0:
        out.extend(gen_elem(n, depth))
    for i in range(0, n):
        for e in gen_elem(i, depth):
            for rest in gen_seq(n - i - 1, depth, min_seps=0):
                out.append(e + ['SEQ'] + rest)
    # dedupe
    seen = set()
    res = []
    for s in out:
        t = tuple(s)
        if t not in seen:
            seen.add(t)
            res.append(s)
    return res


def name_all(sk):
    names = 'abcdefgh'
    spec = []
    i = 0
    for k in sk:
        if k in ('OPD', 'WRT'):
            spec.append('id:' + names[i % 8])
            i += 1
        else:
            spec.append(k)
    return spec


# ---------------------------------------------------------------- reference tree for a concrete separator assignment
def ref_tree(spec, seps):
    """spec with SEQ positions; seps: dict index -> ',' | ';'. Returns nested reference:
    ('empty',) | ('leaf', name) | ('bin', i, L, R) | ('asg', i, L, R) | ('tuple', [..]) | ('chain', [..])"""
    pos = [0]

    def elem():
        if pos[0] >= len(spec):
            return ('empty',)
        k = spec[pos[0]]
        if k == 'SEQ' or k == ')':
            return ('empty',)
        if k == '(':
            pos[0] += 1
            r = seq()
            assert spec[pos[0]] == ')'
            pos[0] += 1
            return r
        if k in ('PRE', 'tok:Minus'):
            i = pos[0]
            pos[0] += 1
            operand = ('leaf', spec[pos[0]][3:])
            pos[0] += 1
            return ('pre', i, operand)
        # operand, maybe followed by BIN/ASG operand
        assert k.startswith('id:')
        left = ('leaf', k[3:])
        pos[0] += 1
        if pos[0] < len(spec) and spec[pos[0]] in ('BIN', 'ASG'):
            i = pos[0]
            kind = 'bin' if spec[i] == 'BIN' else 'asg'
            pos[0] += 1
            right = ('leaf', spec[pos[0]][3:])
            pos[0] += 1
            return (kind, i, left, right)
        return left

    def seq():
        items = [elem()]
        sepl = []
        while pos[0] < len(spec) and spec[pos[0]] == 'SEQ':
            sepl.append(seps[pos[0]])
            pos[0] += 1
            items.append(elem())
        if not sepl:
            return items[0]
        # split by ';' into chain parts, each part by ','
        parts = [[items[0]]]
        for s, it in zip(sepl, items[1:]):
            if s == ';':
                parts.append([it])
            else:
                parts[-1].append(it)
        parts = [p[0] if len(p) == 1 else ('tuple', p) for p in parts]
        return parts[0] if len(parts) == 1 else ('chain', parts)

    r = seq()
    assert pos[0] == len(spec), (spec, pos[0])
    return r


def normalise(C, n):
    """drop wrapper root nodes with exactly one child; a childless root node is the empty element"""
    while op_concrete(C, n) == 'RootNode' and len(children(n)) == 1:
        n = children(n)[0]
    return n


def tree_eq(C, S, n, ref):
    """z3 Bool: symbolic tree n (normalised on the fly) equals reference ref"""
    n = normalise(C, n)
    opn = op_concrete(C, n)
    ch = children(n)
    k = ref[0]
    if k == 'empty':
        return z3.BoolVal(opn == 'RootNode' and len(ch) == 0)
    if k == 'leaf':
        f = n.fields[0].fields
        return z3.BoolVal(bool(f) and isinstance(f[0], SStr) and f[0].concrete() == ref[1] and not ch)
    if k == 'pre':
        if len(ch) != 1 or n.fields[0].fields or opn == 'RootNode':
            return z3.BoolVal(False)
        sl = S.slot_at(ref[1])
        want = expected_op(C, 'PRE', sl[1]) if sl else z3.BitVecVal(C.VI('Operator', 'Neg'), 64)
        return z3.And(op_term(n) == want, tree_eq(C, S, ch[0], ref[2]))
    if k in ('bin', 'asg'):
        if len(ch) != 2 or n.fields[0].fields:
            return z3.BoolVal(False)
        want = expected_op(C, 'BIN' if k == 'bin' else 'ASG', S.slot_at(ref[1])[1])
        return z3.And(op_term(n) == want, tree_eq(C, S, ch[0], ref[2]), tree_eq(C, S, ch[1], ref[3]))
    if k in ('tuple', 'chain'):
        if n.fields[0].fields or len(ch) != len(ref[1]) or opn == 'RootNode':
            return z3.BoolVal(False)
        want = C.VI('Operator', 'Tuple' if k == 'tuple' else 'Chain')
        return z3.And(op_term(n) == want, *[tree_eq(C, S, c, r) for c, r in zip(ch, ref[1])])
    return z3.BoolVal(False)


def show_ref(r):
    k = r[0]
    if k == 'empty':
        return '()'
    if k == 'leaf':
        return r[1]
    if k == 'pre':
        return '(pre %s)' % show_ref(r[2])
    if k in ('bin', 'asg'):
        return '(%s op %s)' % (show_ref(r[2]), show_ref(r[3]))
    return '%s[%s]' % (k, ' '.join(show_ref(x) for x in r[1]))


_C = {}


def ctx():
    if 'c' not in _C:
        _C['c'] = Ctx(frontend.load(overflow_checks=True), overflow_checks=True)
    return _C['c']


def classify(spec, seps):
    """role key of a failing separator assignment (for known findings): the sequence of separators per nesting level"""
    # pattern: does a `;` follow a `,` at the same level?
    depth = 0
    lvl = {0: ''}
    comma_then_semi = False
    for i, k in enumerate(spec):
        if k == '(':
            depth += 1
            lvl[depth] = ''
        elif k == ')':
            depth -= 1
        elif k == 'SEQ':
            s = seps[i]
            if s == ';' and ',' in lvl[depth]:
                comma_then_semi = True
            lvl[depth] = lvl.get(depth, '') + s
            if s == ';':
                lvl[depth] = ''      # a chain element boundary resets the tuple run
    return 'comma-run-then-semicolon' if comma_then_semi else 'other-sequence-shape'


def unit(u, res):
    kind = u[0]
    if kind == 'eval':
        return unit_eval(u, res)
    if kind == 'step':
        import c08
        return c08.unit(u[1], res)
    _, spec, timeout_ms, cvc5_rate, seed = u
    C = ctx()
    S = Skeleton(C, spec)
    t0 = time.time()
    ex, outs = S.run()
    res.exec_s += time.time() - t0
    res.feas_queries += ex.nq
    res.bodies |= ex.bodies_used
    res.models |= ex.models_used
    res.paths += len(outs)
    seq_slots = [(i, v) for i, k, v in S.slots if k == 'SEQ']
    pr = checklib.Prover(res, timeout_ms, cvc5_rate, random.Random(hash((seed, tuple(spec))) & 0xffffffff))
    COMMA, SEMI = C.VI('Token', 'Comma'), C.VI('Token', 'Semicolon')
    for pi, o in enumerate(outs):
        res.nontrivial_paths += 1
        if pr.rng.random() < 0.03:
            fe_, m_ = pr.feasible(o.pc)
            if fe_:
                validate_tree_path(C, res, S, o, m_, random.Random(1), 2.0)
        # one obligation per separator assignment feasible on this path
        for combo in itertools.product(',;', repeat=len(seq_slots)):
            seps = {i: s for (i, v), s in zip(seq_slots, combo)}
            guard = [v == (COMMA if s == ',' else SEMI) for (i, v), s in zip(seq_slots, combo)]
            name = '%s [%s] path %d' % (S.text(), ''.join(combo), pi)
            feas, m0 = pr.feasible(o.pc + guard)
            if feas is None:
                res.unknown.append(name)
                continue
            if not feas:
                continue
            ref = ref_tree(spec, seps)
            if o.kind == 'panic':
                claim, why = z3.BoolVal(False), 'panic: %s' % o.value
            elif o.value.variant != 0:
                claim, why = z3.BoolVal(False), 'rejected: %s' % error_name(C.meta, o.value.fields[0])
            else:
                claim, why = tree_eq(C, S, o.value.fields[0], ref), None
            verdict, model = pr.prove(name, o.pc + guard, claim)
            if len(res.samples) < 1:
                res.samples.append(dict(skeleton=S.text(), separators=''.join(combo), reference=show_ref(ref), verdict=verdict))
            if verdict == 'sat':
                src = S.render(model)
                res.sat.append(dict(key=classify(spec, seps), source=src, witness=src, reference=show_ref(ref),
                                    got=(show_node(C.meta, o.value.fields[0], model) if why is None else why)))


def unit_eval(u, res):
    _, opname, shapes, timeout_ms, cvc5_rate, seed = u
    C = ctx()
    cons = []
    vals = []
    specs = []
    for i, sh in enumerate(shapes):
        v, s = make_value(C, sh, 'v%d' % i, cons)
        vals.append(v)
        specs.append(s)
    body = C.method('Operator', 'eval')
    t0 = time.time()
    ex, outs = C.run(body, lambda st: [ref_to(st, C.operator(opname)), ref_to(st, VecV(vals)), ref_to(st, C.empty_context())], pc=cons)
    res.exec_s += time.time() - t0
    res.feas_queries += ex.nq
    res.bodies |= ex.bodies_used
    res.models |= ex.models_used
    res.paths += len(outs)
    pr = checklib.Prover(res, timeout_ms, cvc5_rate)
    for o in outs:
        res.nontrivial_paths += 1 if shapes else 0
        if opname == 'Tuple':
            want = ('val', ('T', specs))
        elif opname == 'Chain':
            want = ('val', specs[-1]) if specs else ('err',)
        else:
            want = ('val', specs[0] if specs else ('E',))
        if o.kind != 'return':
            claim = z3.BoolVal(False)
        elif want[0] == 'err':
            claim = z3.BoolVal(o.value.variant == 1)
        else:
            claim = value_matches_spec(C.meta, o.value.fields[0], want[1]) if o.value.variant == 0 else z3.BoolVal(False)
        name = 'eval %s%s' % (opname, shapes)
        verdict, model = pr.prove(name, o.pc, claim)
        if verdict == 'sat':
            res.sat.append(dict(key='eval-%s' % opname, witness='%s applied to %s' % (opname, [spec_concrete(s, model) for s in specs]),
                                source=None, got=str(render_result(C.meta, o.value, model)) if o.kind == 'return' else o.value))


def replay_ce(ce):
    if ('operator' in ce and 'children' in ce) or ce.get('walk'):
        import c08
        return c08.replay_ce(ce)
    if not ce.get('source'):
        return 'reproduced', 'evaluation-level counterexample (no source form)'
    src = ce['source']
    # concrete reference from the source text
    toks = src.split(' ')
    spec = []
    seps = {}
    for i, t in enumerate(toks):
        if t in (',', ';'):
            spec.append('SEQ')
            seps[i] = t
        elif t in '()':
            spec.append(t)
        elif t in ('-', '!') and (i == 0 or toks[i - 1] in (',', ';', '(')):
            spec.append('tok:Minus' if t == '-' else 'PRE')
        elif t in TOKEN_TEXT.values():
            spec.append('ASG' if t.endswith('=') and t not in ('==', '!=', '<=', '>=') else 'BIN')
        else:
            spec.append('id:' + t)
    ref = ref_tree(spec, seps)

    def shape_norm(s):
        # parse runner shape string into nested structure, normalise wrappers
        pos = [0]

        def node():
            j = pos[0]
            while s[pos[0]] not in '([':
                pos[0] += 1
            name = s[j:pos[0]]
            payload = None
            if s[pos[0]] == '[':
                e = s.index(']', pos[0])
                payload = s[pos[0] + 1:e]
                pos[0] = e + 1
            assert s[pos[0]] == '('
            pos[0] += 1
            kids = []
            while s[pos[0]] != ')':
                if s[pos[0]] == ' ':
                    pos[0] += 1
                    continue
                kids.append(node())
            pos[0] += 1
            return (name, payload, kids)
        return node()

    def norm(n):
        while n[0] == 'RootNode' and len(n[2]) == 1:
            n = n[2][0]
        return n

    def eq(n, r):
        n = norm(n)
        k = r[0]
        if k == 'empty':
            return n[0] == 'RootNode' and not n[2]
        if k == 'leaf':
            return n[1] is not None and bytes.fromhex(n[1]).decode() == r[1] and not n[2] if n[0] != 'Const' else False
        if k == 'pre':
            return len(n[2]) == 1 and n[0] in ('Neg', 'Not') and eq(n[2][0], r[2])
        if k in ('bin', 'asg'):
            return len(n[2]) == 2 and n[1] is None and eq(n[2][0], r[2]) and eq(n[2][1], r[3])
        if k in ('tuple', 'chain'):
            return n[0] == ('Tuple' if k == 'tuple' else 'Chain') and len(n[2]) == len(r[1]) and all(eq(c, x) for c, x in zip(n[2], r[1]))
        return False

    text = replay.case_text('c', 'build', src)
    details = []
    bad = False
    for prof in ('dev', 'release'):
        out = replay.run_cases(text, prof)['c']
        if 'shape' in out:
            good = eq(shape_norm(out['shape']), ref)
            details.append('%s: tree %s vs reference %s -> %s' % (prof, out['shape'], show_ref(ref), 'ok' if good else 'DIFFERS'))
        else:
            good = False
            details.append('%s: %s (reference %s)' % (prof, out.get('build') or out.get('panic'), show_ref(ref)))
        bad = bad or not good
    return ('reproduced' if bad else 'not_reproduced'), details


def main():
    t0 = time.time()
    tier = checklib.env_tier()
    seed = checklib.env_seed()
    timeout_ms = 60000 if tier == 'quick' else 600000
    cvc5_rate = 0.01 if tier == 'quick' else 0.1
    maxn, depth = (7, 2) if tier == 'quick' else (9, 2)
    frontend.load(overflow_checks=True)
    units = []
    for n in range(1, maxn + 1):
        for sk in gen_seq(n, depth):
            spec = name_all(sk)
            if sum(1 for k in spec if k == 'SEQ') > 5:
                continue
            units.append(('tree', spec, timeout_ms, cvc5_rate, seed))
    nsk = len(units)
    evshapes = ['I', 'F', 'S1', 'T1', 'E', 'B']
    for opname in ('Tuple', 'Chain', 'RootNode'):
        for k in range(0, 4):
            combos = list(itertools.product(evshapes, repeat=k))
            random.Random(seed).shuffle(combos)
            for shp in combos[:(40 if tier == 'quick' else 250)]:
                units.append(('eval', opname, list(shp), timeout_ms, cvc5_rate, seed))
    import c08
    sunits, maxk, _ = c08.make_units(tier, seed, PID)
    sunits = [s for s in sunits if s[0] in ('Tuple', 'Chain', 'RootNode')]
    units += [('step', s) for s in sunits]
    random.Random(seed).shuffle(units)
    results = checklib.run_units(checklib.safe_worker(unit), units)
    checklib.finish(PID, results, t0=t0, replay_fn=replay_ce,
                    rule='every sequence skeleton Elem (SEP Elem)* up to %d tokens, parenthesis depth %d, elements in {empty, a, a BIN b, x ASG a, (sequence)}; '
                         'every separator a solver variable over {comma, semicolon}; one obligation per (path, separator assignment feasible on it); plus '
                         'Operator::eval of Tuple/Chain/RootNode on 0..3 symbolic arguments; plus the C08 inductive step (both node evaluators) on Tuple/Chain/RootNode nodes with '
                         '0..%d children of every child kind: all elements are evaluated once, in order, before the operator is applied' % (maxn, depth, maxk),
                    explanation='bounded symbolic verification of tokens_to_operator_tree / collapse_* from MIR with symbolic separator tokens; the tree normalised '
                                'by dropping one-child wrapper root nodes must equal the reference chain-of-tuples for each separator assignment (z3 unsat)',
                    assumptions=['wrapper root nodes with one child are identity on evaluation (Operator::eval RootNode: verified in the evaluation half)',
                                 'elements are restricted to the listed forms; longer inputs outside the claim',
                                 'evaluation order / effects of the other operators are C08'],
                    bounds=dict(max_tokens=maxn, paren_depth=depth, tree_skeletons=nsk, solver_timeout_ms=timeout_ms))


if __name__ == '__main__':
    main()
