"""C09 — function resolution: call forms, shadowing and the builtin switch.

(1) Classification at parse time: tokens_to_operator_tree on [Identifier, T] with T symbolic over all payload-free token kinds (28-way) and
    each payload kind: Write iff T is an assignment, Function iff T in {(, identifier, literal}, else Read.
(2) Call forms n(x), n x, n(), n(x, y), m n x: tree built from tokens by the real builder, then evaluated from MIR in a context with
    recording user functions and symbolic variable values: the logged arguments must have the stated shape.
(3) Dispatch: Operator::eval(FunctionIdentifier{n}, [v], ctx) for every builtin name and a non-builtin name in every context configuration:
    user function wins; builtin iff no user function and not disabled; else FunctionIdentifierNotFound(n); a variable named n is irrelevant."""
import zlib
import sys, os, time, random, itertools, re
import z3
sys.path.insert(0, os.path.dirname(os.path.dirname(os.path.abspath(__file__))))
import frontend, checklib, replay, models
from harness import *
from shapes import *
from ctxlib import *
from skel import *
from engine import identical
import c10
from c12 import equal_term

PID = 'C09'
CVC5_RATE = [0.01]
PAYLOAD_FREE = ['Plus', 'Minus', 'Star', 'Slash', 'Percent', 'Hat', 'Eq', 'Neq', 'Gt', 'Lt', 'Geq', 'Leq', 'And', 'Or', 'Not', 'LBrace', 'RBrace',
                'Assign', 'PlusAssign', 'MinusAssign', 'StarAssign', 'SlashAssign', 'PercentAssign', 'HatAssign', 'AndAssign', 'OrAssign', 'Comma', 'Semicolon']
ASSIGN_TOKS = ['Assign', 'PlusAssign', 'MinusAssign', 'StarAssign', 'SlashAssign', 'PercentAssign', 'HatAssign', 'AndAssign', 'OrAssign']
_C = {}


def ctx():
    if 'c' not in _C:
        _C['c'] = Ctx(frontend.load(overflow_checks=True), overflow_checks=True)
    return _C['c']


def first_identifier_node(C, n):
    """pre-order first node carrying the identifier"""
    op = n.fields[0]
    if op.fields and isinstance(op.fields[0], SStr) and op.fields[0].concrete() == 'n':
        return n
    for c in children(n):
        r = first_identifier_node(C, c)
        if r is not None:
            return r
    return None


def unit(u, res):
    kind = u[0]
    C = ctx()
    timeout_ms = u[-2]
    pr = checklib.Prover(res, timeout_ms, CVC5_RATE[0], random.Random(zlib.crc32(repr(u).encode()) ^ checklib.env_seed()))
    meta = C.meta
    if kind in ('classify', 'classifyp'):
        if kind == 'classifyp':
            _, nxt, prefix, timeout_ms, seed = u
        else:
            _, nxt, timeout_ms, seed = u
            prefix = ''
        VI = C.VI
        # what stands before the identifier must not matter: nothing, an applied function, an operator, a separator, a prefix operator
        pre_toks = {'': [], 'p': [C.token('Identifier', sstr('p'))], '1 +': [C.token('Int', Int(z3.BitVecVal(1, 64), True)), C.token('Plus')],
                    '1 ;': [C.token('Int', Int(z3.BitVecVal(1, 64), True)), C.token('Semicolon')], '!': [C.token('Not')],
                    'p q': [C.token('Identifier', sstr('p')), C.token('Identifier', sstr('q'))]}[prefix]
        toks = pre_toks + [C.token('Identifier', sstr('n'))]
        cons = []
        slot = None
        if nxt == 'SLOT':
            slot = z3.BitVec('next_token', 64)
            cons.append(z3.Or(*[slot == VI('Token', t) for t in PAYLOAD_FREE]))
            toks.append(Adt('Token', slot, []))
        elif nxt == 'END':
            pass
        else:
            payload = {'Identifier': [sstr('m')], 'Float': [Fl(z3.FP('tf', F64))], 'Int': [Int(z3.BitVec('ti', 64), True)], 'Boolean': [z3.Bool('tb')],
                       'String': [SStr([Int(z3.BitVec('ts', 32), False)])]}[nxt]
            toks.append(C.token(nxt, *payload))
        ex, outs = C.run('tokens_to_operator_tree', [VecV(toks)], pc=cons)
        res.paths += len(outs)
        res.feas_queries += ex.nq
        res.bodies |= ex.bodies_used
        res.models |= ex.models_used
        for o in outs:
            res.nontrivial_paths += 1
            # the classification is visible in the tree when building succeeds; when it fails (e.g. `n )`), the property says nothing
            if o.kind != 'return':
                claim = z3.BoolVal(False)
            elif o.value.variant != 0:
                # `n <literal>`, `n m` and a lone `n` are complete expressions and must build; `n <operator/bracket>` may be an incomplete input
                claim = z3.BoolVal(nxt == 'SLOT')
            else:
                node = first_identifier_node(C, o.value.fields[0])
                if node is None:
                    claim = z3.BoolVal(False)
                else:
                    v = node.fields[0].variant
                    vt = v if not isinstance(v, int) else z3.BitVecVal(v, 64)
                    if slot is not None:
                        is_asg = z3.Or(*[slot == VI('Token', t) for t in ASSIGN_TOKS])
                        is_app = slot == VI('Token', 'LBrace')
                        want = z3.If(is_asg, z3.BitVecVal(VI('Operator', 'VariableIdentifierWrite'), 64),
                                     z3.If(is_app, z3.BitVecVal(VI('Operator', 'FunctionIdentifier'), 64), z3.BitVecVal(VI('Operator', 'VariableIdentifierRead'), 64)))
                    elif nxt == 'END':
                        want = z3.BitVecVal(VI('Operator', 'VariableIdentifierRead'), 64)
                    else:
                        want = z3.BitVecVal(VI('Operator', 'FunctionIdentifier'), 64)
                    claim = vt == want
            verdict, model = pr.prove('identifier followed by %s' % nxt, o.pc, claim)
            if verdict == 'sat':
                tn = meta.enums['Token'][model.eval(slot, model_completion=True).as_long()][0] if slot is not None else nxt
                src = (prefix + ' ' if prefix else '') + 'n ' + (TOKEN_TEXT.get(tn) or {'Identifier': 'm', 'Float': '1.5', 'Int': '1', 'Boolean': 'true', 'String': '"s"', 'END': ''}[tn])
                res.sat.append(dict(key='identifier classification before token %s' % tn, source=src, witness=src, classify=True,
                                    got=show_node(meta, o.value.fields[0], model) if o.value.variant == 0 else 'Err'))
        if len(res.samples) < 1:
            res.samples.append(dict(unit='classify identifier after `%s` followed by %s' % (prefix, nxt), paths=len(outs)))
    elif kind == 'callform':
        _, form, timeout_ms, seed = u
        cons = []
        xv, xs = make_value(C, 'I', 'x', cons)
        yv, ys = make_value(C, 'S1', 'y', cons)
        T = C.token
        forms = {
            'n(x)': [T('Identifier', sstr('n')), T('LBrace'), T('Identifier', sstr('x')), T('RBrace')],
            'n x': [T('Identifier', sstr('n')), T('Identifier', sstr('x'))],
            'n()': [T('Identifier', sstr('n')), T('LBrace'), T('RBrace')],
            'n(x, y)': [T('Identifier', sstr('n')), T('LBrace'), T('Identifier', sstr('x')), T('Comma'), T('Identifier', sstr('y')), T('RBrace')],
            'm n x': [T('Identifier', sstr('m')), T('Identifier', sstr('n')), T('Identifier', sstr('x'))],
            'n 1': [T('Identifier', sstr('n')), T('Int', Int(z3.BitVecVal(1, 64), True))],
            'n "s"': [T('Identifier', sstr('n')), T('String', sstr('s'))],
            'n true': [T('Identifier', sstr('n')), T('Boolean', z3.BoolVal(True))],
            'n 2.5': [T('Identifier', sstr('n')), T('Float', Fl(z3.FPVal(2.5, F64)))],
            'n(x) == 1': [T('Identifier', sstr('n')), T('LBrace'), T('Identifier', sstr('x')), T('RBrace'), T('Eq'), T('Int', Int(z3.BitVecVal(1, 64), True))],
        }
        want_logs = {
            'n(x)': [('n', xs)], 'n x': [('n', xs)], 'n()': [('n', ('E',))], 'n(x, y)': [('n', ('T', [xs, ys]))], 'm n x': [('n', xs), ('m', xs)],
            'n 1': [('n', ('I', z3.BitVecVal(1, 64)))], 'n "s"': [('n', ('S', [z3.BitVecVal(ord('s'), 32)]))], 'n true': [('n', ('B', z3.BoolVal(True)))],
            'n 2.5': [('n', ('F', z3.FPVal(2.5, F64)))], 'n(x) == 1': [('n', xs)],
        }
        ex, outs = C.run('tokens_to_operator_tree', [VecV(forms[form])])
        res.bodies |= ex.bodies_used
        if len(outs) != 1 or outs[0].kind != 'return' or outs[0].value.variant != 0:
            res.sat.append(dict(key='call form %s does not build' % form, source=form, witness=form, callform=True))
            res.obligations += 1
            return
        tree = outs[0].value.fields[0]
        body = C.method('Node', 'eval_with_context')
        ex2, outs2 = C.run(body, lambda st: [ref_to(st, tree), ref_to(st, build_context(C, st, variables=[('x', xv), ('y', yv), ('n', C.v_int(99))],
                                                                                          functions=[('n', 'identity'), ('m', 'identity')]))], pc=cons)
        res.paths += len(outs2)
        res.bodies |= ex2.bodies_used
        res.models |= ex2.models_used
        for o in outs2:
            res.nontrivial_paths += 1
            log = [e for e in o.log if e[0] == 'user']
            want = want_logs[form]
            if o.kind != 'return' or o.value.variant != 0 or len(log) != len(want):
                claim = z3.BoolVal(False)
            else:
                claim = z3.And(*[z3.And(z3.BoolVal(e[1] == w[0]), value_matches_spec(meta, e[2], w[1])) for e, w in zip(log, want)])
            verdict, model = pr.prove('call form %s' % form, o.pc, claim)
            if verdict == 'sat':
                res.sat.append(dict(key='call form %s passes a wrong argument' % form, source=form, witness=form, callform=True,
                                    got=[(e[1], str(render_value(meta, e[2], model))) for e in log]))
        if len(res.samples) < 1:
            res.samples.append(dict(unit='call form %s' % form, tree=show_node(meta, tree)))
    elif kind == 'dispatch':
        _, name, cfg, timeout_ms, seed = u
        ctxkind, user_fn, var_named, via = cfg
        cons = []
        v, vs = make_value(C, 'I', 'arg', cons)
        flag = z3.Bool('disabled')
        holder = {}

        def mkctx(st):
            if ctxkind == 'hashmap':
                cv = build_context(C, st, variables=([(name, C.v_int(123))] if var_named else []), functions=([(name, user_fn)] if user_fn else []), disabled=flag)
            else:
                cv = C.empty_context(with_builtins=(ctxkind == 'emptyb'))
            return cv
        body = C.method('Operator', 'eval')
        newflag = z3.Bool('new_disabled')
        eff_flag = flag
        if via == 'set_flag' and ctxkind == 'hashmap':
            # the switch is switchable: set_builtin_functions_disabled(b) with b symbolic on a context whose previous flag is symbolic too
            pre_body = C.method('HashMapContext', 'set_builtin_functions_disabled', trait='Context')
            ex0, outs0 = C.run(pre_body, lambda st: [ref_to(st, mkctx(st), mut=True), newflag], pc=cons)
            res.bodies |= ex0.bodies_used
            if len(outs0) != 1 or outs0[0].kind != 'return':
                res.inconclusive.append('context preparation %s produced %d paths' % (via, len(outs0)))
                return
            prepared = outs0[0].state.anchors[0].val
            expect_user = bool(user_fn)
            ctx_builder = lambda st: copy_value(prepared)
            eff_flag = newflag
        elif via == 'clone_from' and ctxkind == 'hashmap':
            pre_body = C.p.find_method('Clone', 'HashMapContext', 'clone_from')
            if pre_body is None:
                res.obligations += 1
                res.discharged += 1
                return
            other_flag = z3.Bool('other_disabled')
            ex0, outs0 = C.run(pre_body, lambda st: [ref_to(st, build_context(C, st, variables=[('q', C.v_int(1))], functions=[], disabled=other_flag), mut=True),
                                                     ref_to(st, mkctx(st))], pc=cons)
            res.bodies |= ex0.bodies_used
            if len(outs0) != 1 or outs0[0].kind != 'return':
                res.inconclusive.append('context preparation %s produced %d paths' % (via, len(outs0)))
                return
            prepared = outs0[0].state.anchors[0].val
            expect_user = bool(user_fn)
            ctx_builder = lambda st: copy_value(prepared)
        elif via in ('clear', 'clear_variables') and ctxkind == 'hashmap':
            # removing variables (and functions) leaves the builtin switch alone
            pre_body = C.p.find_inherent('HashMapContext', via)
            ex0, outs0 = C.run(pre_body, lambda st: [ref_to(st, mkctx(st), mut=True)], pc=cons)
            res.bodies |= ex0.bodies_used
            if len(outs0) != 1 or outs0[0].kind != 'return':
                res.inconclusive.append('context preparation %s produced %d paths' % (via, len(outs0)))
                return
            prepared = outs0[0].state.anchors[0].val
            expect_user = bool(user_fn) and via != 'clear'
            ctx_builder = lambda st: copy_value(prepared)
        elif via in ('clone', 'clear_functions') and ctxkind == 'hashmap':
            # establish the configuration through the API first: clone the context / clear its functions, then dispatch
            pre_body = C.p.find_method('Clone', 'HashMapContext', 'clone') if via == 'clone' else C.method('HashMapContext', 'clear_functions')
            ex0, outs0 = C.run(pre_body, lambda st: [ref_to(st, mkctx(st), mut=True)], pc=cons)
            res.bodies |= ex0.bodies_used
            if len(outs0) != 1 or outs0[0].kind != 'return':
                res.inconclusive.append('context preparation %s produced %d paths' % (via, len(outs0)))
                return
            if via == 'clone':
                prepared = outs0[0].value
            else:
                prepared = outs0[0].state.anchors[0].val
            expect_user = user_fn and via == 'clone'
            ctx_builder = lambda st: copy_value(prepared)
        else:
            expect_user = user_fn and ctxkind == 'hashmap'
            ctx_builder = mkctx
        ex, outs = C.run(body, lambda st: [ref_to(st, C.operator('FunctionIdentifier', sstr(name))), ref_to(st, VecV([copy_value(v)])), ref_to(st, ctx_builder(st))], pc=cons)
        res.paths += len(outs)
        res.feas_queries += ex.nq
        res.bodies |= ex.bodies_used
        res.models |= ex.models_used
        is_builtin = name in c10.BUILTINS
        # reference for the builtin's result: the builtin applied directly (same closure, reached through builtin_function + Function::call)
        direct = None
        if is_builtin:
            exd, direct = C.run(body, lambda st: [ref_to(st, C.operator('FunctionIdentifier', sstr(name))), ref_to(st, VecV([copy_value(v)])),
                                                  ref_to(st, C.empty_context(with_builtins=True))], pc=cons)
        for o in outs:
            res.nontrivial_paths += 1
            user_calls = [e for e in o.log if e[0] == 'user']
            if o.kind != 'return':
                claim = z3.BoolVal(False)
            elif expect_user:
                okc = len(user_calls) == 1 and user_calls[0][1] == name
                if user_fn == 'fail':
                    good = okc and o.value.variant == 1 and error_name(meta, o.value.fields[0]) == 'CustomMessage' and o.value.fields[0].fields[0].concrete() == 'fail:' + name
                    claim = z3.And(z3.BoolVal(bool(good)), value_matches_spec(meta, user_calls[0][2], vs) if okc else z3.BoolVal(False))
                else:
                    okc = okc and o.value.variant == 0
                    claim = z3.And(z3.BoolVal(okc), value_matches_spec(meta, user_calls[0][2], vs) if okc else z3.BoolVal(False),
                                   equal_term(o.value.fields[0], C.v_str('result of ' + name)) if okc else z3.BoolVal(False))
            else:
                if user_calls:
                    claim = z3.BoolVal(False)
                else:
                    disabled = eff_flag if ctxkind == 'hashmap' else z3.BoolVal(ctxkind == 'empty')
                    notfound = z3.BoolVal(o.value.variant == 1 and error_name(meta, o.value.fields[0]) == 'FunctionIdentifierNotFound'
                                          and o.value.fields[0].fields[0].concrete() == name)
                    if is_builtin:
                        same_as_direct = z3.Or(*[z3.And(z3.And(*d.pc[len(cons):]) if d.pc[len(cons):] else z3.BoolVal(True), equal_term(o.value, d.value))
                                                 for d in direct if d.kind == 'return']) if direct else z3.BoolVal(False)
                        claim = z3.If(disabled, notfound, same_as_direct)
                    else:
                        claim = notfound
            verdict, model = pr.prove('dispatch %s in %s' % (name, cfg), o.pc, claim)
            if verdict == 'sat':
                dis = z3.is_true(model.eval(eff_flag, model_completion=True)) if ctxkind == 'hashmap' else (ctxkind == 'empty')
                pre_dis = z3.is_true(model.eval(flag, model_completion=True))
                res.sat.append(dict(key='resolution of %s name (user fn %s, disabled %s)' % ('builtin' if is_builtin else 'non-builtin', expect_user, dis), name=name, cfg=list(cfg), disabled=dis, pre_disabled=(pre_dis if ctxkind == 'hashmap' else None),
                                    witness='%s(%s) in %s: %s' % (name, spec_concrete(vs, model), cfg, render_result(meta, o.value, model)), dispatch=True))
        if len(res.samples) < 1:
            res.samples.append(dict(unit='dispatch %s' % name, configuration=list(cfg), paths=len(outs)))


def replay_ce(ce):
    details = []
    bad = False
    for prof in ('dev', 'release'):
        if ce.get('classify') or ce.get('callform'):
            probes = [('n(7)', [('n', ('Int', 7))]), ('n 7', [('n', ('Int', 7))]), ('n()', [('n', ('Empty',))]), ('n(7, "a")', [('n', ('Tuple', [('Int', 7), ('String', 'a')]))]),
                      ('m n 7', [('n', ('Int', 7)), ('m', ('Int', 7))]), ('n true', [('n', ('Boolean', True))]), ('n "s"', [('n', ('String', 's'))]), ('n 2.5', [('n', ('Float', 0x4004000000000000))]),
                      ('n x', [('n', ('Int', 3))]), ('n + 1', []), ('n; 1', []), ('n, 1', []), ('n == 1', []), ('(n)', []), ('n * 2', []), ('n = 5', []),
                      # the same classifications behind another identifier / operator / separator
                      ('m n = 5', [('m', ('Empty',))]), ('m n += 1', [('m', ('Empty',))]), ('1 + n 7', [('n', ('Int', 7))]), ('1; n = 5; m n', [('m', ('Int', 5))]),
                      ('m x', [('m', ('Int', 3))]), ('!n true', [('n', ('Boolean', True))]), ('m m n = 2', [('m', ('Empty',)), ('m', ('Empty',))])]
            text = ''.join(replay.case_text('p%d' % i, 'eval_with_context_mut', p, vars=[('n', ('Int', 1)), ('x', ('Int', 3))], funcs=[('n', 'log'), ('m', 'log')])
                           for i, (p, _) in enumerate(probes))
            out = replay.run_cases(text, prof)
            for i, (p, want) in enumerate(probes):
                got = out['p%d' % i].get('log', [])
                if got != want:
                    bad = True
                    details.append('%s: `%s` calls %s, expected %s (result %s)' % (prof, p, got, want, out['p%d' % i].get('result')))
        else:
            name = ce['name']
            ctxkind, user_fn, var_named, via = ce['cfg']
            expr = '%s(v)' % name
            kw = dict(vars=[('v', ('Int', 4))] + ([(name, ('Int', 123))] if var_named else []),
                      funcs=([(name, 'fail' if user_fn == 'fail' else 'const:S:72')] if user_fn else []), disabled=ce.get('disabled', False))
            ops = []
            if via == 'clone':
                ops = ['clone']
            elif via == 'clear_functions':
                ops = ['clear_functions']
            elif via == 'clone_from':
                ops = ['clonefrom']
            elif via in ('clear', 'clear_variables'):
                ops = [via]
            elif via == 'set_flag':
                kw['disabled'] = bool(ce.get('pre_disabled'))
                ops = ['disable %d' % (1 if ce.get('disabled') else 0)]
            ctxarg = {'hashmap': 'hashmap', 'empty': 'empty', 'emptyb': 'emptyb'}[ctxkind]
            if ctxkind != 'hashmap':
                kw = dict(vars=[], funcs=[])
                expr = '%s(4)' % name
            else:
                pass
            text = replay.case_text('d', 'eval_with_context', expr, ctx=ctxarg, ops=ops, **kw) + replay.case_text('b', 'eval_with_context', expr if ctxkind != 'hashmap' else '%s(v)' % name,
                                                                                                               ctx='hashmap', vars=[('v', ('Int', 4))])
            out = replay.run_cases(text, prof)
            r, rb = out['d'].get('result'), out['b'].get('result')
            expect_user = user_fn and ctxkind == 'hashmap' and via not in ('clear_functions', 'clear')
            disabled = ce.get('disabled', False) if ctxkind == 'hashmap' else ctxkind == 'empty'
            if expect_user and user_fn == 'fail':
                okk = bool(r and r[0] == 'Err' and r[1] == 'CustomMessage')
            elif expect_user:
                okk = r == ('Ok', ('String', 'r'))
            elif disabled or name not in c10.BUILTINS:
                okk = bool(r and r[0] == 'Err' and r[1] == 'FunctionIdentifierNotFound')
            else:
                okk = r == rb
            details.append('%s: %s in %s -> %s (builtin alone: %s)' % (prof, expr, ce['cfg'], r, rb))
            bad = bad or not okk
    return ('reproduced' if bad else 'not_reproduced'), details[:8]


def main():
    t0 = time.time()
    tier = checklib.env_tier()
    seed = checklib.env_seed()
    CVC5_RATE[0] = 0.01 if tier == 'quick' else 0.1
    timeout_ms = 60000 if tier == 'quick' else 600000
    frontend.load(overflow_checks=True)
    units = []
    for nxt in ['SLOT', 'END', 'Identifier', 'Float', 'Int', 'Boolean', 'String']:
        units.append(('classify', nxt, timeout_ms, seed))
        for prefix in ('p', '1 +', '1 ;', '!', 'p q'):
            units.append(('classifyp', nxt, prefix, timeout_ms, seed))
    for form in ['n(x)', 'n x', 'n()', 'n(x, y)', 'm n x', 'n 1', 'n "s"', 'n true', 'n 2.5', 'n(x) == 1']:
        units.append(('callform', form, timeout_ms, seed))
    cfgs = []
    for user_fn in (False, 'marker', 'fail'):
        for var_named in (False, True):
            for via in ('direct', 'clone', 'clear_functions', 'set_flag', 'clone_from', 'clear', 'clear_variables'):
                cfgs.append(('hashmap', user_fn, var_named, via))
    cfgs += [('empty', False, False, 'direct'), ('emptyb', False, False, 'direct')]
    names = c10.BUILTINS + ['foo', 'math::sinus', 'random']
    for name in names:
        for cfg in cfgs:
            units.append(('dispatch', name, cfg, timeout_ms, seed))
    random.Random(seed).shuffle(units)
    results = checklib.run_units(checklib.safe_worker(unit), units)
    checklib.finish(PID, results, t0=t0, replay_fn=replay_ce, exhaustive=True,
                    rule='classification: identifier followed by a token that is a solver variable over the 28 payload-free token kinds, by each payload kind, and by end of input; '
                         'call forms: 10 token vectors built by the real tree builder and evaluated from MIR with recording user functions and symbolic variable values; dispatch: '
                         'complete matrix of %d names (all builtins + 3 non-builtins) x %d context configurations (HashMapContext x user function present/absent x variable of the same name '
                         'present/absent x {direct, after clone, after clear_functions}, builtin flag a solver variable; EmptyContext; EmptyContextWithBuiltinFunctions), argument a symbolic Int'
                         % (len(names), len(cfgs)),
                    explanation='bounded symbolic verification from MIR; the configuration matrix is finite and enumerated completely, the builtin flag, the argument and the next token are '
                                'solver variables; the builtin\'s own result is compared with the same builtin applied in EmptyContextWithBuiltinFunctions',
                    assumptions=['user functions are observed through a recording stub', 'argument of the dispatch runs is an Int (argument handling of each builtin: C10)'],
                    bounds=dict(names=len(names), configurations=len(cfgs), solver_timeout_ms=timeout_ms))


if __name__ == '__main__':
    main()
