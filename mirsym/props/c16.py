"""C16 — serde support round-trips expressions and contexts.

The crate's serde glue — `Deserialize for Node` + `NodeVisitor` (hand written) and the derive-generated `Serialize` / `Deserialize` of
`HashMapContext` and `Value` (with their `#[serde(skip)]` attribute) — is executed from the MIR of the crate compiled with `--cfg feature="serde"`.
The format side of serde's protocol is a model of the serde data model (mirsym/serde_model.py): a recording Serializer and two replaying
Deserializers (self-describing: structs as maps / variants by name; positional: structs as sequences / variants by index).

 node units   : Node::deserialize on a string content; build_operator_tree is a havoc stub (Ok(marker tree) | Err(marker error)); the result must be
                that tree, resp. `de::Error::custom(that error)` (the same message), after exactly one build of exactly the given string.
 ctx units    : a HashMapContext with variables of every value type (payloads are solver variables: any i64, any f64 bit pattern, any bool, any
                chars), a user function and a symbolic builtin switch is serialized; the record is deserialized in both format modes; claim: same
                variables (floats compared as bit-vectors: bit-exact), same switch, no functions.
"""
import zlib
import sys, os, time, random, itertools, re
import z3
sys.path.insert(0, os.path.dirname(os.path.dirname(os.path.abspath(__file__))))
import frontend, checklib, replay, models
from harness import *
from shapes import *
from ctxlib import *
from c12 import equal_term
import serde_model

PID = 'C16'
CVC5_RATE = [0.05]
_C = {}


def ctx():
    if 'c' not in _C:
        _C['c'] = Ctx(frontend.load(overflow_checks=True, features='serde'), overflow_checks=True)
    return _C['c']


def bits_equal(a, b):
    """structural equality with floats compared bit for bit (all NaNs are one value in z3's FP theory: payload bits are outside the model)"""
    return equal_term(a, b)


def unit_node(u, res):
    _, mode, timeout_ms, seed = u
    C = ctx()
    pr = checklib.Prover(res, timeout_ms, CVC5_RATE[0], random.Random(zlib.crc32(repr(u).encode()) ^ checklib.env_seed()))
    W = serde_model.World(C, mode)
    ex = W.install(C.new_exec())
    marker = C.node(C.operator('RootNode'), [C.node(C.operator('Const', C.v_int(424242)))])
    marker_err = Adt('EvalexprError', C.VI('EvalexprError', 'CustomMessage'), [sstr('build failed')])
    ch = [z3.BitVec('s%d' % i, 32) for i in range(3)]
    cons = [valid_scalar(c) for c in ch]
    text = SStr([Int(c, False) for c in ch])

    def build_stub(ex_, st, c, args):
        tag = ex_.branch(st, [(z3.Bool('build_ok'), 'OK'), (z3.Not(z3.Bool('build_ok')), 'ERR')])
        st.log.append(('build', copy_value(ex_.deref_all(args[0]))))
        st.notes.append(('build', tag))
        return ok(copy_value(marker)) if tag == 'OK' else err(copy_value(marker_err))
    ex.overrides.insert(0, (re.compile(r'(interface::)?build_operator_tree'), build_stub))
    body = W.deserialize_body('Node')
    t0 = time.time()
    ex, outs = C.run(body, lambda st: [Adt('ModelDeserializer', 0, [serde_model.C('str', text)])], pc=cons, ex=ex)
    res.exec_s += time.time() - t0
    res.bodies |= ex.bodies_used
    res.models |= ex.models_used
    res.feas_queries += ex.nq
    res.paths += len(outs)
    for o in outs:
        res.nontrivial_paths += 1
        why = None
        builds = [e for e in o.log if e[0] == 'build']
        tags = [n[1] for n in o.state.notes if n[0] == 'build']
        if o.kind != 'return':
            why = 'panic: %s' % o.value
        elif len(builds) != 1:
            why = 'build_operator_tree called %d times' % len(builds)
        else:
            if tags[0] == 'OK':
                claim = equal_term(o.value, ok(marker))
            else:
                want = err(serde_model.serde_error('custom', marker_err))
                claim = equal_term(o.value, want)
        if why:
            claim = z3.BoolVal(False)
        verdict, model = pr.prove('Node::deserialize (%s)' % mode, o.pc, claim)
        if verdict == 'sat':
            res.sat.append(dict(key='deserializing an expression differs from precompiling the string', node=True,
                                why=why or 'result is not the built tree / not custom(build error)',
                                witness='Node::deserialize of %r: %s' % (render_str(text, model), why or 'wrong result %r' % (o.value,))))
        if not why:
            # proxy: the string handed to build_operator_tree is the deserialized string itself (a different string that builds the same tree is harmless)
            verdict, model = pr.prove('Node::deserialize (%s) builds the given string' % mode, o.pc, equal_term(builds[0][1], text))
            if verdict == 'sat':
                res.sat.append(dict(key='the expression deserializer precompiles another string', node=True, proxy=True,
                                    witness='Node::deserialize of %r precompiles %r' % (render_str(text, model), render_str(builds[0][1], model))))
    # a string is required: any other content is an error, never a tree
    for other in (serde_model.C('i64', Int(z3.BitVec('n', 64), True)), serde_model.C('unit')):
        W2 = serde_model.World(C, mode)
        ex2 = W2.install(C.new_exec())
        ex2.overrides.insert(0, (re.compile(r'(interface::)?build_operator_tree'), build_stub))
        ex2, outs2 = C.run(body, lambda st: [Adt('ModelDeserializer', 0, [other])], ex=ex2)
        res.paths += len(outs2)
        for o in outs2:
            res.obligations += 1
            if o.kind == 'return' and o.value.variant == 1:
                res.discharged += 1
            else:
                res.sat.append(dict(key='a non-string content deserializes to an expression', node=True, witness='Node::deserialize of %s' % other.ty))
    if len(res.samples) < 1:
        res.samples.append(dict(unit='Node::deserialize (%s)' % mode, paths=len(outs), protocol=W.trace[:12]))


def unit_ctx(u, res):
    _, shapes, with_fn, mode, timeout_ms, seed = u
    C = ctx()
    pr = checklib.Prover(res, timeout_ms, CVC5_RATE[0], random.Random(zlib.crc32(repr(u).encode()) ^ checklib.env_seed()))
    W = serde_model.World(C, mode)
    ex = W.install(C.new_exec())
    cons = []
    vals = []
    specs = []
    for i, sh in enumerate(shapes):
        v, s = make_value(C, sh, 'v%d' % i, cons)
        vals.append(v)
        specs.append(s)
    flag = z3.Bool('ctx_disabled')
    names = ['var%d' % i for i in range(len(shapes))]
    holder = {}
    ser_body = W.serialize_body('HashMapContext')

    def a1(st):
        cv = build_context(C, st, variables=[(n, copy_value(v)) for n, v in zip(names, vals)], functions=([('f', 'identity')] if with_fn else []), disabled=flag)
        holder['c'] = ref_to(st, cv)
        return [holder['c'], Adt(serde_model.SER, 0, [])]
    t0 = time.time()
    ex, outs = C.run(ser_body, a1, pc=cons, ex=ex)
    res.exec_s += time.time() - t0
    res.paths += len(outs)
    name = 'HashMapContext{%s}%s fn:%s, %s format' % (','.join(shapes), '', with_fn, mode)
    ser_trace = list(W.trace)
    de_body = W.deserialize_body('HashMapContext')
    res.bodies |= ex.bodies_used
    res.models |= ex.models_used
    res.feas_queries += ex.nq
    outs2 = []
    for o1 in outs:
        if o1.kind != 'return' or o1.value.variant != 0:
            feas, model = pr.feasible(o1.pc)
            if feas is None:
                res.unknown.append(name + ' (serialize)')
            elif feas:
                pre = [render_value(C.meta, v, model) for v in vals]
                res.sat.append(dict(key='serializing a context fails', ctx=True, shapes=shapes, with_fn=with_fn, mode=mode, pre_vars=list(zip(names, pre)),
                                    disabled=z3.is_true(model.eval(flag, model_completion=True)),
                                    witness='%s with %s: serialize -> %s %s' % (name, list(zip(names, pre)), o1.kind, repr(o1.value)[:160])))
            continue
        W.trace = []
        ex2 = W.install(C.new_exec())
        content = o1.value.fields[0]
        ex2, part = C.run(de_body, lambda st: [Adt('ModelDeserializer', 0, [copy_value(content)])], pc=o1.pc, ex=ex2)
        res.bodies |= ex2.bodies_used
        res.models |= ex2.models_used
        res.feas_queries += ex2.nq
        outs2 += part
    res.exec_s += time.time() - t0
    res.paths += len(outs2)
    for o in outs2:
        res.nontrivial_paths += 1
        why = None
        claim = z3.BoolVal(False)
        if o.kind != 'return':
            why = 'panic: %s' % o.value
        elif o.value.variant != 0:
            why = 'deserialization fails: %r' % (o.value.fields[0],)
        else:
            f = ctx_fields(C, o.value.fields[0])
            vm = f['variables']
            keys = [k.concrete() for k in vm.keys]
            if sorted(keys) != sorted(names):
                why = 'variable names %s, expected %s' % (keys, names)
            elif f['functions'].keys:
                why = 'functions %s after deserialization' % [k.concrete() for k in f['functions'].keys]
            else:
                cl = [f['without_builtin_functions'] == flag]
                for n, v in zip(names, vals):
                    cl.append(bits_equal(vm.vals[keys.index(n)], v))
                claim = z3.And(*cl)
        verdict, model = pr.prove(name, o.pc, claim, diversify=diversify_plan(specs, ['v%d' % i for i in range(len(shapes))]) if False else None)
        if verdict == 'sat':
            pre = [render_value(C.meta, v, model) for v in vals]
            dis = z3.is_true(model.eval(flag, model_completion=True))
            got = None
            if o.kind == 'return' and o.value.variant == 0:
                f = ctx_fields(C, o.value.fields[0])
                got = dict(vars=[(k.concrete(), render_value(C.meta, v, model)) for k, v in zip(f['variables'].keys, f['variables'].vals)],
                           disabled=str(model.eval(f['without_builtin_functions'], model_completion=True)))
            res.sat.append(dict(key='context round trip differs', ctx=True, shapes=shapes, with_fn=with_fn, mode=mode, pre_vars=list(zip(names, pre)), disabled=dis,
                                why=why or 'values or switch differ', got=got,
                                witness='%s with %s, builtins disabled = %s: %s' % (name, list(zip(names, pre)), dis, why or ('deserialized %s' % got))))
    if len(res.samples) < 1:
        res.samples.append(dict(unit=name, serialize_protocol=ser_trace[:14], deserialize_protocol=W.trace[:20]))


def unit(u, res):
    if u[0] == 'node':
        return unit_node(u, res)
    return unit_ctx(u, res)


# ---------------------------------------------------------------- native replay (ron, the crate's own dev-dependency)
def replay_ce(ce):
    import serde_replay
    return serde_replay.replay(ce)


def main():
    t0 = time.time()
    tier = checklib.env_tier()
    seed = checklib.env_seed()
    timeout_ms = 60000 if tier == 'quick' else 600000
    CVC5_RATE[0] = 0.05 if tier == 'quick' else 0.5
    frontend.load(overflow_checks=True, features='serde')
    units = []
    for mode in ('map', 'seq'):
        units.append(('node', mode, timeout_ms, seed))
    base = ['I', 'F', 'B', 'S2', 'E', 'T0', 'T1', 'T[I,F]', 'T[S1,T[B,E]]', 'T[T[F,F],S1,I]']
    if tier != 'quick':
        base += ['S0', 'S5', 'T[T[T[I]]]', 'T[E,E]', 'T[B,B,B,B]', 'T[F,T0,T1]']
    combos = [[]] + [[a] for a in base] + [[a, b] for a in base for b in base if a <= b or tier != 'quick']
    rng = random.Random(seed)
    tri = [list(x) for x in itertools.product(base, repeat=3)]
    rng.shuffle(tri)
    combos += tri[:(12 if tier == 'quick' else 200)]
    for shapes in combos:
        for with_fn in (False, True):
            for mode in ('map', 'seq'):
                units.append(('ctx', shapes, with_fn, mode, timeout_ms, seed))
    rng.shuffle(units)
    results = checklib.run_units(checklib.safe_worker(unit), units)
    # validation of the data-model assumption against a real format: the crate (serde feature) + RON, natively, on a fixed corpus
    import serde_replay
    nat = checklib.UnitResult('native RON round trips (model validation)')
    total, diffs, msg = serde_replay.validate()
    if msg:
        nat.inconclusive.append('native RON runner unavailable: %s' % msg)
    for d in diffs:
        nat.inconclusive.append('native RON round trip differs although no solver counterexample explains it: %s' % d)
    nat.samples.append(dict(native_ron_cases=total, disagreements=len(diffs)))
    results.append(nat)
    checklib.finish(PID, results, t0=t0, replay_fn=replay_ce, extra=dict(native_ron_round_trips=dict(cases=total, disagreements=len(diffs))),
                    rule='(node) Node::deserialize + NodeVisitor::visit_str from MIR on a 3-char symbolic string with build_operator_tree as a havoc stub, in 2 format models; '
                         '(ctx) HashMapContext::serialize then HashMapContext::deserialize (derive output, incl. Value and the field/variant identifier visitors) from MIR for %d '
                         'variable-shape vectors (0..3 variables; shapes Int/Float/Boolean/String/Empty/nested tuples, payloads solver variables) x {with, without a user function} x '
                         '{self-describing, positional} format model; claim per path: deserialization succeeds, variable names and values equal (floats as bit-vectors), builtin switch '
                         'equal, no functions' % len(combos),
                    explanation='bounded symbolic verification of the crate side of the serde protocol (hand-written and derive-generated impls, from MIR of the crate built with the serde '
                                'feature) against a model of the serde data model; solver queries compare the deserialized context with the original for all payloads',
                    assumptions=['the data format represents the serde data model faithfully (every value written is read back as the same kind and bits): text formats that print floats '
                                 'in decimal or merge integer and float syntax (RON, JSON) are outside this model and are covered only by the native replay of counterexamples',
                                 'serde + serde_derive as compiled by the nightly toolchain from the offline registry (serde_shim/Cargo.lock) generate the impls that are executed; '
                                 'the crate\'s own lock file pins 1.0.213: derive output of the two versions is assumed equivalent',
                                 'NaN payload bits are not distinguished (one NaN in the FP theory)',
                                 'visit_bytes / borrowed-string variants of the identifier visitors are not driven by the model formats'],
                    bounds=dict(max_variables=3, shapes=len(base), format_models=2, solver_timeout_ms=timeout_ms))


if __name__ == '__main__':
    main()
