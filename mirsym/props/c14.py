"""C14 — identifier iterators describe exactly the identifiers of the expression.

Units: NodeIter::next, OperatorIterMut::next and the ten iter_*identifiers* adaptors (closures included), executed from MIR on every
ordered tree shape up to a node bound; each node is either a payload-free operator or an identifier node whose class (write / read /
function) and name are solver variables.  Oracle: the pre-order occurrence list filtered by class; the mutable iterators must yield
references to exactly the same positions."""
import zlib
import sys, os, time, random, itertools, re
import z3
sys.path.insert(0, os.path.dirname(os.path.dirname(os.path.abspath(__file__))))
import frontend, checklib, replay, models
from harness import *

PID = 'C14'
CVC5_RATE = [0.01]
ITERS = {
    'iter_identifiers': ('Write', 'Read', 'Function'), 'iter_variable_identifiers': ('Write', 'Read'), 'iter_read_variable_identifiers': ('Read',),
    'iter_write_variable_identifiers': ('Write',), 'iter_function_identifiers': ('Function',),
}
VARIANT = {'Write': 'VariableIdentifierWrite', 'Read': 'VariableIdentifierRead', 'Function': 'FunctionIdentifier'}
_C = {}


def ctx():
    if 'c' not in _C:
        _C['c'] = Ctx(frontend.load(overflow_checks=True), overflow_checks=True)
    return _C['c']


def forests(n):
    """all ordered forests with exactly n nodes, as nested lists (a node = list of its children)"""
    if n == 0:
        return [[]]
    out = []
    for k in range(1, n + 1):           # size of the first tree
        for first_children in forests(k - 1):
            for rest in forests(n - k):
                out.append([first_children] + rest)
    return out


def build(C, forest, labels, cons, counter, path, pre):
    """-> list of Node adts; appends (path, variant term, name term, is_id) to pre in pre-order"""
    nodes = []
    for i, kids in enumerate(forest):
        j = counter[0]
        counter[0] += 1
        lab = labels[j]
        mypath = path + [('field', 1), ('index', i)]
        if lab == 'id':
            v = z3.BitVec('class%d' % j, 64)
            cons.append(z3.Or(*[v == C.VI('Operator', VARIANT[k]) for k in VARIANT]))
            ch = z3.BitVec('name%d' % j, 32)
            cons.append(valid_scalar(ch))
            op = Adt('Operator', v, [SStr([Int(ch, False)])])
            pre.append((tuple(mypath), v, ch))
        else:
            op = C.operator('Add' if len(kids) == 2 else 'RootNode' if len(kids) <= 1 else 'Tuple')
        sub = build(C, kids, labels, cons, counter, mypath, pre)
        nodes.append(C.node(op, sub))
    return nodes


def unit(u, res):
    forest, labels, itname, mutable, timeout_ms, seed = u
    C = ctx()
    cons = []
    pre = []
    kids = build(C, forest, labels, cons, [0], [], pre)
    top = C.node(C.operator('RootNode') if len(kids) <= 1 else C.operator('Tuple'), kids)
    fname = itname + ('_mut' if mutable else '')
    body = C.p.find_inherent('Node', fname)
    if body is None:
        raise Unsupported('no method Node::%s' % fname)
    drain = models.synth_static(C.new_exec(), '__drain')
    holder = {}

    def args(st):
        holder['n'] = ref_to(st, top, mut=mutable)
        return [holder['n']]
    t0 = time.time()
    ex, outs = C.run(body, args, pc=cons)
    res.bodies |= ex.bodies_used
    res.models |= ex.models_used
    pr = checklib.Prover(res, timeout_ms, CVC5_RATE[0], random.Random(zlib.crc32(repr(u).encode()) ^ checklib.env_seed()))
    name = 'Node::%s on forest %s labels %s' % (fname, forest, ''.join('i' if l == 'id' else 'o' for l in labels))
    classes = [C.VI('Operator', VARIANT[k]) for k in ITERS[itname]]
    for o in outs:
        if o.kind != 'return':
            res.paths += 1
            res.obligations += 1
            res.sat.append(dict(key='iterator construction panics', witness=name))
            continue
        from engine import Frame
        st2 = o.state
        fr = Frame(drain)
        fr.locals[drain.args[0]] = st2.new_cell(Ref(st2.new_cell(o.value), []))
        st2.frames.append(fr)
        ex2 = C.new_exec()
        outs2 = ex2.run(st2)
        res.bodies |= ex2.bodies_used
        res.models |= ex2.models_used
        res.feas_queries += ex.nq + ex2.nq
        res.paths += len(outs2)
        for o2 in outs2:
            res.nontrivial_paths += 1 if pre else 0
            if o2.kind != 'return':
                claim = z3.BoolVal(False)
                got = 'panic: %s' % o2.value
            else:
                items = o2.value.items
                m = len(items)
                got = m
                ok_refs = all(isinstance(it, Ref) and it.cell.id == holder['n'].cell.id for it in items)
                if not ok_refs:
                    claim = z3.BoolVal(False)
                else:
                    # position (path to the identifier string) and name of each yielded item
                    ipaths = [tuple(p for p in it.path if p[0] in ('field', 'index')) for it in items]
                    inames = []
                    for it in items:
                        s = ex2.deref_all(Ref(find_cell(o2.state, holder['n'].cell.id), it.path))
                        inames.append(s.items[0].t if isinstance(s, SStr) and len(s.items) == 1 else None)
                    cl = []
                    count = z3.IntVal(0)
                    for (ppath, v, ch) in pre:
                        inc = z3.Or(*[v == c for c in classes])
                        idpath = ppath + (('field', 0), ('field', 0))
                        alts = []
                        for k in range(m):
                            same_pos = strip(ipaths[k]) == strip(idpath)
                            if same_pos and inames[k] is not None:
                                alts.append(z3.And(count == k, inames[k] == ch))
                        cl.append(z3.Implies(inc, z3.Or(*alts) if alts else z3.BoolVal(False)))
                        count = count + z3.If(inc, 1, 0)
                    cl.append(count == m)
                    claim = z3.And(*cl)
            verdict, model = pr.prove(name, o2.pc, claim)
            if verdict == 'sat':
                cls = []
                for (ppath, v, ch) in pre:
                    vv = model.eval(v, model_completion=True).as_long()
                    cls.append(C.meta.enums['Operator'][vv][0])
                res.sat.append(dict(key='%s lists wrong occurrences' % fname, iterator=fname, forest=str(forest), labels=labels, classes=cls, yielded=got,
                                    witness='%s with identifier classes %s yields %s items' % (name, cls, got)))
    res.exec_s += time.time() - t0
    if len(res.samples) < 1:
        res.samples.append(dict(unit=name, identifier_nodes=len(pre), paths=res.paths))


def strip(p):
    """normalise a reference path: drop downcasts; keep field/index steps"""
    return tuple(x for x in p if x[0] in ('field', 'index'))


def find_cell(st, cid):
    for c in st.anchors:
        if c.id == cid:
            return c
    return None


# ---------------------------------------------------------------- replay through source programs
def replay_ce(ce):
    """native comparison of all ten iterators with a reference occurrence list on probe programs covering every class order"""
    probes = {
        'a; b = 1': [('a', 'R'), ('b', 'W')],
        'x = y; z = x': [('x', 'W'), ('y', 'R'), ('z', 'W'), ('x', 'R')],
        'f(u = v, w = u)': [('f', 'F'), ('u', 'W'), ('v', 'R'), ('w', 'W'), ('u', 'R')],
        'a + f(b) * g(c, d = 2)': [('a', 'R'), ('f', 'F'), ('b', 'R'), ('g', 'F'), ('c', 'R'), ('d', 'W')],
        'total = price * count; total + 1': [('total', 'W'), ('price', 'R'), ('count', 'R'), ('total', 'R')],
        'acc += step; acc': [('acc', 'W'), ('step', 'R'), ('acc', 'R')],
        'f g h x': [('f', 'F'), ('g', 'F'), ('h', 'F'), ('x', 'R')],
        '(a, (b, c)); d': [('a', 'R'), ('b', 'R'), ('c', 'R'), ('d', 'R')],
        '1 + 2': [],
        'a': [('a', 'R')],
    }
    filt = {'iter_identifiers': 'WRF', 'iter_variable_identifiers': 'WR', 'iter_read_variable_identifiers': 'R', 'iter_write_variable_identifiers': 'W', 'iter_function_identifiers': 'F'}
    details = []
    bad = False
    for prof in ('dev', 'release'):
        text = ''.join(replay.case_text('p%d' % i, 'build', p) for i, p in enumerate(probes))
        out = replay.run_cases(text, prof)
        for i, (p, occ) in enumerate(probes.items()):
            o = out['p%d' % i]
            for itn, classes in filt.items():
                want = [n for n, c in occ if c in classes]
                for suffix in ('', '_mut'):
                    got = o.get(itn + suffix)
                    if got != want:
                        bad = True
                        details.append('%s: `%s`.%s%s -> %s, reference %s' % (prof, p, itn, suffix, got, want))
    return ('reproduced' if bad else 'not_reproduced'), details[:6] or ['probe programs agree natively']


def main():
    t0 = time.time()
    tier = checklib.env_tier()
    seed = checklib.env_seed()
    CVC5_RATE[0] = 0.003 if tier == 'quick' else 0.03
    timeout_ms = 60000 if tier == 'quick' else 600000
    frontend.load(overflow_checks=True)
    maxn = 4 if tier == 'quick' else 5
    units = []
    for n in range(0, maxn + 1):
        for f in forests(n):
            combos = list(itertools.product(['id', 'op'], repeat=n))
            if n >= 4 and tier == 'quick':
                combos = [c for c in combos if c.count('id') >= 2]
            if n >= 5:
                random.Random(hash((seed, str(f))) & 0xffff).shuffle(combos)
                combos = combos[:8]
            for labels in combos:
                for itname in ITERS:
                    for mutable in (False, True):
                        units.append((f, list(labels), itname, mutable, timeout_ms, seed))
    random.Random(seed).shuffle(units)
    results = checklib.run_units(checklib.safe_worker(unit), units)
    checklib.finish(PID, results, t0=t0, replay_fn=replay_ce,
                    rule='every ordered forest of <= %d nodes below the root x every labelling of its nodes as {operator, identifier} (sampled for the largest size) x the 5 immutable and 5 '
                         'mutable identifier iterators; for identifier nodes the class (write/read/function) and the name are solver variables; obligation per path of the drained iterator: '
                         'the yielded references are exactly the identifier strings of the nodes whose class the iterator selects, in pre-order, with the right names' % maxn,
                    explanation='bounded symbolic verification of NodeIter::next / OperatorIterMut::next and the filter_map closures from MIR; shapes are enumerated, classes and names are '
                                'quantified by the solver (this is the weakest use of the technique among the claimed properties: the shape space is enumerated)',
                    assumptions=['trees need not be parser-reachable (the iterators are public API on any Node)',
                                 'evaluation looks up exactly the stored identifier (C09 dispatch and C03/C11 VariableIdentifierRead units), so renaming through the mutable iterators and in the context commutes with evaluation: stated consequence, not separately decided',
                                 'Iterator::filter_map is modelled (lazy adaptor); slice iterators are native models'],
                    bounds=dict(max_nodes=maxn, iterators=10, solver_timeout_ms=timeout_ms))


if __name__ == '__main__':
    main()
