"""C14 — identifier iterators describe exactly the identifiers of the expression.

Units: NodeIter::next, OperatorIterMut::next and the ten iter_*identifiers* adaptors (closures included), executed from MIR on every
ordered tree shape up to a node bound; each node is either a payload-free operator or an identifier node whose class (write / read /
function) and name are solver variables.  Oracle: the pre-order occurrence list filtered by class; the mutable iterators must yield
references to exactly the same positions."""
import zlib
import sys, os, time, random, itertools, re
import z3
sys.path.insert(0, os.path.dirname(os.path.dirname(os.path.abspath(__file__))))
import frontend, checklib, replay, models
from harness import *
from shapes import *
from ctxlib import *
import c11
from c12 import equal_term

PID = 'C14'
CVC5_RATE = [0.01]
ITERS = {
    'iter_identifiers': ('Write', 'Read', 'Function'), 'iter_variable_identifiers': ('Write', 'Read'), 'iter_read_variable_identifiers': ('Read',),
    'iter_write_variable_identifiers': ('Write',), 'iter_function_identifiers': ('Function',),
}
VARIANT = {'Write': 'VariableIdentifierWrite', 'Read': 'VariableIdentifierRead', 'Function': 'FunctionIdentifier'}
_C = {}


def ctx():
    if 'c' not in _C:
        _C['c'] = Ctx(frontend.load(overflow_checks=True), overflow_checks=True)
    return _C['c']


def forests(n):
    """all ordered forests with exactly n nodes, as nested lists (a node = list of its children)"""
    if n == 0:
        return [[]]
    out = []
    for k in range(1, n + 1):           # size of the first tree
        for first_children in forests(k - 1):
            for rest in forests(n - k):
                out.append([first_children] + rest)
    return out


def build(C, forest, labels, cons, counter, path, pre):
    """-> list of Node adts; appends (path, variant term, name term, is_id) to pre in pre-order"""
    nodes = []
    for i, kids in enumerate(forest):
        j = counter[0]
        counter[0] += 1
        lab = labels[j]
        mypath = path + [('field', 1), ('index', i)]
        if lab == 'id':
            v = z3.BitVec('class%d' % j, 64)
            cons.append(z3.Or(*[v == C.VI('Operator', VARIANT[k]) for k in VARIANT]))
            ch = z3.BitVec('name%d' % j, 32)
            cons.append(valid_scalar(ch))
            op = Adt('Operator', v, [SStr([Int(ch, False)])])
            pre.append((tuple(mypath), v, ch))
        else:
            op = C.operator('Add' if len(kids) == 2 else 'RootNode' if len(kids) <= 1 else 'Tuple')
        sub = build(C, kids, labels, cons, counter, mypath, pre)
        nodes.append(C.node(op, sub))
    return nodes


def unit(u, res):
    if u[0] in ('classify', 'classifyp'):
        import c09
        return c09.unit(u, res)
    if u[0] == 'origin':
        return unit_origin(u, res)
    if u[0] == 'target':
        return unit_target(u, res)
    forest, labels, itname, mutable, timeout_ms, seed = u
    C = ctx()
    cons = []
    pre = []
    kids = build(C, forest, labels, cons, [0], [], pre)
    top = C.node(C.operator('RootNode') if len(kids) <= 1 else C.operator('Tuple'), kids)
    fname = itname + ('_mut' if mutable else '')
    body = C.p.find_inherent('Node', fname)
    if body is None:
        raise Unsupported('no method Node::%s' % fname)
    drain = models.synth_static(C.new_exec(), '__drain')
    holder = {}

    def args(st):
        holder['n'] = ref_to(st, top, mut=mutable)
        return [holder['n']]
    t0 = time.time()
    ex, outs = C.run(body, args, pc=cons)
    res.bodies |= ex.bodies_used
    res.models |= ex.models_used
    pr = checklib.Prover(res, timeout_ms, CVC5_RATE[0], random.Random(zlib.crc32(repr(u).encode()) ^ checklib.env_seed()))
    name = 'Node::%s on forest %s labels %s' % (fname, forest, ''.join('i' if l == 'id' else 'o' for l in labels))
    classes = [C.VI('Operator', VARIANT[k]) for k in ITERS[itname]]
    for o in outs:
        if o.kind != 'return':
            res.paths += 1
            res.obligations += 1
            res.sat.append(dict(key='iterator construction panics', witness=name))
            continue
        from engine import Frame
        st2 = o.state
        fr = Frame(drain)
        fr.locals[drain.args[0]] = st2.new_cell(Ref(st2.new_cell(o.value), []))
        st2.frames.append(fr)
        ex2 = C.new_exec()
        outs2 = ex2.run(st2)
        res.bodies |= ex2.bodies_used
        res.models |= ex2.models_used
        res.feas_queries += ex.nq + ex2.nq
        res.paths += len(outs2)
        for o2 in outs2:
            res.nontrivial_paths += 1 if pre else 0
            if o2.kind != 'return':
                claim = z3.BoolVal(False)
                got = 'panic: %s' % o2.value
            else:
                items = o2.value.items
                m = len(items)
                got = m
                ok_refs = all(isinstance(it, Ref) and it.cell.id == holder['n'].cell.id for it in items)
                if not ok_refs:
                    claim = z3.BoolVal(False)
                else:
                    # position (path to the identifier string) and name of each yielded item
                    ipaths = [tuple(p for p in it.path if p[0] in ('field', 'index')) for it in items]
                    inames = []
                    for it in items:
                        s = ex2.deref_all(Ref(find_cell(o2.state, holder['n'].cell.id), it.path))
                        inames.append(s.items[0].t if isinstance(s, SStr) and len(s.items) == 1 else None)
                    cl = []
                    count = z3.IntVal(0)
                    for (ppath, v, ch) in pre:
                        inc = z3.Or(*[v == c for c in classes])
                        idpath = ppath + (('field', 0), ('field', 0))
                        alts = []
                        for k in range(m):
                            same_pos = strip(ipaths[k]) == strip(idpath)
                            if same_pos and inames[k] is not None:
                                alts.append(z3.And(count == k, inames[k] == ch))
                        cl.append(z3.Implies(inc, z3.Or(*alts) if alts else z3.BoolVal(False)))
                        count = count + z3.If(inc, 1, 0)
                    cl.append(count == m)
                    claim = z3.And(*cl)
            verdict, model = pr.prove(name, o2.pc, claim)
            if verdict == 'sat':
                cls = []
                for (ppath, v, ch) in pre:
                    vv = model.eval(v, model_completion=True).as_long()
                    cls.append(C.meta.enums['Operator'][vv][0])
                res.sat.append(dict(key='%s lists wrong occurrences' % fname, iterator=fname, forest=str(forest), labels=labels, classes=cls, yielded=got,
                                    witness='%s with identifier classes %s yields %s items' % (name, cls, got)))
    res.exec_s += time.time() - t0
    if len(res.samples) < 1:
        res.samples.append(dict(unit=name, identifier_nodes=len(pre), paths=res.paths))


# ---------------------------------------------------------------- the stated consequence: unknown names are listed names
# C08's inductive step (run by C08/C11/C13) shows that a node's result is either the unchanged error of its first failing child or the
# result of Operator::eval[_mut] on its own operator.  So every *IdentifierNotFound error originates in one operator application:
ALL_OPS = c11.NON_ASSIGN + c11.ASSIGN
K_TARGET = 'unknown-variable-named-by-a-computed-assignment-target'


def unit_origin(u, res):
    """Operator::eval / eval_mut report VariableIdentifierNotFound(n) only for VariableIdentifierRead{n} or for `target op= value` with the
    target string n, and FunctionIdentifierNotFound(n) only for FunctionIdentifier{n}; VariableIdentifierWrite{n} evaluates to the string n"""
    _, opname, ident, shapes, mutable, ctxkind, timeout_ms, seed = u[:8]
    fnb = u[8] if len(u) > 8 else 'identity'
    C = ctx()
    pr = checklib.Prover(res, timeout_ms, CVC5_RATE[0], random.Random(zlib.crc32(repr(u).encode()) ^ checklib.env_seed()))
    cons, outs, h, pre, flag = c11.run_op(C, res, opname, ident, shapes, mutable, ctxkind, fnb)
    name = 'Operator::%s(%s[%s], %s) in %s' % ('eval_mut' if mutable else 'eval', opname, ident, shapes, ctxkind)
    args = None
    for o in outs:
        res.obligations += 0
        res.nontrivial_paths += 1
        if o.kind != 'return':
            continue        # panics are C01's
        r = o.value
        claim = None
        if r.variant == 1:
            en = error_name(C.meta, r.fields[0])
            if en == 'VariableIdentifierNotFound':
                got = r.fields[0].fields[0]
                alts = []
                if opname == 'VariableIdentifierRead':
                    alts.append(equal_term(got, sstr(ident)))
                if opname in c11.ASSIGN and shapes and shapes[0].startswith('S'):
                    a0 = make_value(C, shapes[0], 'a0', [])[0]      # same solver variables as run_op's first argument
                    alts.append(equal_term(got, a0.fields[0]))
                claim = z3.Or(*alts) if alts else z3.BoolVal(False)
            elif en == 'FunctionIdentifierNotFound':
                got = r.fields[0].fields[0]
                claim = equal_term(got, sstr(ident)) if opname == 'FunctionIdentifier' else z3.BoolVal(False)
                if fnb == 'notfound_other' and ctxkind == 'hashmap':
                    # a user function that itself reports another unknown function: with builtins enabled the crate re-reports the failure under the
                    # node's own identifier (listed); with builtins disabled the user function's own error is passed through (outside the claim)
                    claim = z3.Or(flag, claim)
        elif opname == 'VariableIdentifierWrite':
            v = r.fields[0]
            claim = equal_term(v.fields[0], sstr(ident)) if isinstance(v, Adt) and v.variant == C.VI('Value', 'String') else z3.BoolVal(False)
        if claim is None:
            res.obligations += 1
            res.discharged += 1
            continue
        verdict, model = pr.prove(name, o.pc, claim)
        if verdict == 'sat':
            res.sat.append(dict(key='operator reports an unknown name that is not its own identifier', op=opname, ident=ident, shapes=shapes, mutable=mutable,
                                witness='%s -> %s' % (name, render_result(C.meta, r, model))))
    if len(res.samples) < 1:
        res.samples.append(dict(unit=name, paths=len(outs)))


TARGET_KINDS = ['Write', 'ConstStr', 'RootConstStr', 'ReadStrVar']


def unit_target(u, res):
    """node level: `target op= 1` evaluated from MIR in a HashMapContext; an unknown-variable error must name an identifier that the
    (MIR-executed) iter_identifiers of the same tree lists"""
    _, opname, tkind, timeout_ms, seed = u
    C = ctx()
    pr = checklib.Prover(res, timeout_ms, CVC5_RATE[0], random.Random(zlib.crc32(repr(u).encode()) ^ checklib.env_seed()))
    cons = []
    ch = z3.BitVec('tname', 32)
    cons.append(z3.And(z3.UGE(ch, ord('a')), z3.ULE(ch, ord('z')), ch != ord('k')))     # a one-letter name other than the context's `k`
    nm = SStr([Int(ch, False)])
    if tkind == 'Write':
        child0 = C.node(C.operator('VariableIdentifierWrite', nm))
    elif tkind == 'ConstStr':
        child0 = C.node(C.operator('Const', C.v_str(nm)))
    elif tkind == 'RootConstStr':
        child0 = C.node(C.operator('RootNode'), [C.node(C.operator('Const', C.v_str(nm)))])
    else:
        child0 = C.node(C.operator('VariableIdentifierRead', sstr('k')))
    top = C.node(C.operator('RootNode'), [C.node(C.operator(opname), [child0, C.node(C.operator('Const', C.v_int(1)))])])
    # listed names, by executing iter_identifiers from MIR
    it_body = C.p.find_inherent('Node', 'iter_identifiers')
    drain = models.synth_static(C.new_exec(), '__drain')
    holder = {}

    def a1(st):
        holder['n'] = ref_to(st, top)
        return [holder['n']]
    ex, outs = C.run(it_body, a1, pc=cons)
    res.bodies |= ex.bodies_used
    listed = None
    if len(outs) == 1 and outs[0].kind == 'return':
        from engine import Frame
        st2 = outs[0].state
        fr = Frame(drain)
        fr.locals[drain.args[0]] = st2.new_cell(Ref(st2.new_cell(outs[0].value), []))
        st2.frames.append(fr)
        ex2 = C.new_exec()
        outs2 = ex2.run(st2)
        if len(outs2) == 1 and outs2[0].kind == 'return':
            listed = []
            for it in outs2[0].value.items:
                s = ex2.deref_all(Ref(find_cell(outs2[0].state, holder['n'].cell.id), it.path)) if isinstance(it, Ref) else None
                listed.append(s)
    if listed is None or not all(isinstance(s, SStr) for s in listed):
        res.inconclusive.append('iter_identifiers on the target tree did not produce one list of strings')
        return
    body = C.method('Node', 'eval_with_context_mut')

    def a2(st):
        cv = build_context(C, st, variables=[('k', C.v_str(nm))], functions=[], disabled=False)
        return [ref_to(st, top), ref_to(st, cv, mut=True)]
    t0 = time.time()
    ex3, outs3 = C.run(body, a2, pc=cons)
    res.exec_s += time.time() - t0
    res.bodies |= ex3.bodies_used
    res.models |= ex3.models_used
    res.feas_queries += ex3.nq
    res.paths += len(outs3)
    name = '`<%s target> %s 1`' % (tkind, opname)
    for o in outs3:
        res.nontrivial_paths += 1
        if o.kind != 'return' or o.value.variant != 1 or error_name(C.meta, o.value.fields[0]) not in ('VariableIdentifierNotFound', 'FunctionIdentifierNotFound'):
            res.obligations += 1
            res.discharged += 1
            continue
        got = o.value.fields[0].fields[0]
        claim = z3.Or(*[equal_term(got, s) for s in listed]) if listed else z3.BoolVal(False)
        verdict, model = pr.prove(name, o.pc, claim)
        if verdict == 'sat':
            t = chr(model.eval(ch, model_completion=True).as_long())
            sym = SYM[opname]
            src = {'Write': '%s %s 1' % (t, sym), 'ConstStr': '"%s" %s 1' % (t, sym), 'RootConstStr': '("%s") %s 1' % (t, sym), 'ReadStrVar': '(k) %s 1' % sym}[tkind]
            res.sat.append(dict(key=(K_TARGET if tkind != 'Write' else 'unknown variable of an identifier target is not listed'), target_kind=tkind, op=opname,
                                source=src, ctx_vars=[['k', ['String', t]]], listed=[render_str(s, model) for s in listed],
                                witness='%s with k = "%s": %s, identifiers listed: %s' % (src, t, render_result(C.meta, o.value, model), [render_str(s, model) for s in listed])))
    if len(res.samples) < 1:
        res.samples.append(dict(unit=name, listed=len(listed), paths=len(outs3)))


SYM = {'Assign': '=', 'AddAssign': '+=', 'SubAssign': '-=', 'MulAssign': '*=', 'DivAssign': '/=', 'ModAssign': '%=', 'ExpAssign': '^=', 'AndAssign': '&&=', 'OrAssign': '||='}


def strip(p):
    """normalise a reference path: drop downcasts; keep field/index steps"""
    return tuple(x for x in p if x[0] in ('field', 'index'))


def find_cell(st, cid):
    for c in st.anchors:
        if c.id == cid:
            return c
    return None


# ---------------------------------------------------------------- replay through source programs
def replay_names(ce):
    """native: evaluate programs that fail with an unknown identifier; the reported name must be among the names iter_identifiers lists"""
    if 'source' in ce:
        progs = [(ce['source'], [(n, tuple(v)) for n, v in ce.get('ctx_vars', [])])]
    else:
        base = [('a', ('Int', 1)), ('s', ('String', 'q'))]
        progs = [(p, base) for p in ['fab(1)', 'a + fab(a)', 'missing', 'a + missing', 'missing + a', 'nofn(1)', 'a; nofn a', 'x += 1', 'y -= a', 'z &&= true', 'w = missing', '(missing, a)', 'f(missing)',
                                      'a = nofn(2)', 'len(missing)', 'a *= missing', 'b ||= false', 'c ^= 2', 'd /= 2', 'e %= 2', 't = a; u += t', 'typeof(nofn2 a)', '-missing', '!nob']]
    details = []
    bad = False
    for prof in ('dev', 'release'):
        text = ''
        for i, (p, vs) in enumerate(progs):
            text += replay.case_text('b%d' % i, 'build', p) + replay.case_text('e%d' % i, 'eval_with_context_mut', p, vars=vs, funcs=[('fab', 'notfound_other')])
        out = replay.run_cases(text, prof)
        for i, (p, vs) in enumerate(progs):
            r = out['e%d' % i].get('result')
            listed = out['b%d' % i].get('iter_identifiers')
            if r and r[0] == 'Err' and r[1] in ('VariableIdentifierNotFound', 'FunctionIdentifierNotFound') and listed is not None:
                nm = r[2][1] if r[2] else None
                if nm not in listed:
                    bad = True
                    details.append('%s: `%s` reports %s(%r); iter_identifiers lists %s' % (prof, p, r[1], nm, listed))
    return ('reproduced' if bad else 'not_reproduced'), details[:6] or ['every reported unknown name is listed natively']


def replay_ce(ce):
    """native comparison of all ten iterators with a reference occurrence list on probe programs covering every class order"""
    if ce.get('classify'):
        import c09
        return c09.replay_ce(ce)
    if 'source' in ce or ce.get('key', '').startswith('operator reports'):
        return replay_names(ce)
    probes = {
        'a; b = 1': [('a', 'R'), ('b', 'W')],
        'x = y; z = x': [('x', 'W'), ('y', 'R'), ('z', 'W'), ('x', 'R')],
        'f(u = v, w = u)': [('f', 'F'), ('u', 'W'), ('v', 'R'), ('w', 'W'), ('u', 'R')],
        'a + f(b) * g(c, d = 2)': [('a', 'R'), ('f', 'F'), ('b', 'R'), ('g', 'F'), ('c', 'R'), ('d', 'W')],
        'total = price * count; total + 1': [('total', 'W'), ('price', 'R'), ('count', 'R'), ('total', 'R')],
        'acc += step; acc': [('acc', 'W'), ('step', 'R'), ('acc', 'R')],
        'f g h x': [('f', 'F'), ('g', 'F'), ('h', 'F'), ('x', 'R')],
        '(a, (b, c)); d': [('a', 'R'), ('b', 'R'), ('c', 'R'), ('d', 'R')],
        '1 + 2': [],
        'a': [('a', 'R')],
    }
    filt = {'iter_identifiers': 'WRF', 'iter_variable_identifiers': 'WR', 'iter_read_variable_identifiers': 'R', 'iter_write_variable_identifiers': 'W', 'iter_function_identifiers': 'F'}
    details = []
    bad = False
    for prof in ('dev', 'release'):
        text = ''.join(replay.case_text('p%d' % i, 'build', p) for i, p in enumerate(probes))
        out = replay.run_cases(text, prof)
        for i, (p, occ) in enumerate(probes.items()):
            o = out['p%d' % i]
            for itn, classes in filt.items():
                want = [n for n, c in occ if c in classes]
                for suffix in ('', '_mut'):
                    got = o.get(itn + suffix)
                    if got != want:
                        bad = True
                        details.append('%s: `%s`.%s%s -> %s, reference %s' % (prof, p, itn, suffix, got, want))
    return ('reproduced' if bad else 'not_reproduced'), details[:6] or ['probe programs agree natively']


def main():
    t0 = time.time()
    tier = checklib.env_tier()
    seed = checklib.env_seed()
    CVC5_RATE[0] = 0.003 if tier == 'quick' else 0.03
    timeout_ms = 60000 if tier == 'quick' else 600000
    frontend.load(overflow_checks=True)
    maxn = 4 if tier == 'quick' else 5
    units = []
    for n in range(0, maxn + 1):
        for f in forests(n):
            combos = list(itertools.product(['id', 'op'], repeat=n))
            if n >= 4 and tier == 'quick':
                combos = [c for c in combos if c.count('id') >= 2]
            if n >= 5:
                random.Random(hash((seed, str(f))) & 0xffff).shuffle(combos)
                combos = combos[:8]
            for labels in combos:
                for itname in ITERS:
                    for mutable in (False, True):
                        units.append((f, list(labels), itname, mutable, timeout_ms, seed))
    n_iter_units = len(units)
    eshapes = ['I', 'F', 'B', 'S1', 'T1', 'E']
    arglists = [[]] + [[a] for a in eshapes] + [[a, b] for a in eshapes for b in eshapes]
    a3 = [[a, b, c_] for a in eshapes for b in eshapes for c_ in eshapes]
    random.Random(seed).shuffle(a3)
    arglists += a3[:(6 if tier == 'quick' else 60)]
    for op in ALL_OPS:
        idents = ['x', 'zz'] if op in ('VariableIdentifierWrite', 'VariableIdentifierRead') else ['f', 'min', 'zz'] if op == 'FunctionIdentifier' else ['-']
        for ident in idents:
            for shapes in arglists:
                for mutable in (False, True):
                    for ck in (('hashmap', 'empty', 'emptyb') if (len(shapes) <= 1 or op in c11.ASSIGN) else ('hashmap',)):
                        if mutable and ck != 'hashmap':
                            continue
                        units.append(('origin', op, ident, shapes, mutable, ck, timeout_ms, seed))
    for shapes in [[a] for a in eshapes]:
        for mutable in (False, True):
            units.append(('origin', 'FunctionIdentifier', 'f', shapes, mutable, 'hashmap', timeout_ms, seed, 'notfound_other'))
    # the classification itself is made by the tree builder: an identifier is an assignment target / applied function / read variable by what follows
    # it, whatever precedes it (shared with C09)
    for nxt in ['SLOT', 'END', 'Identifier', 'Float', 'Int', 'Boolean', 'String']:
        units.append(('classify', nxt, timeout_ms, seed))
        for prefix in ('p', '1 +', '1 ;', '!', 'p q'):
            units.append(('classifyp', nxt, prefix, timeout_ms, seed))
    for op in c11.ASSIGN:
        for tk in TARGET_KINDS:
            units.append(('target', op, tk, timeout_ms, seed))
    random.Random(seed).shuffle(units)
    results = checklib.run_units(checklib.safe_worker(unit), units)
    checklib.finish(PID, results, t0=t0, replay_fn=replay_ce,
                    rule='every ordered forest of <= %d nodes below the root x every labelling of its nodes as {operator, identifier} (sampled for the largest size) x the 5 immutable and 5 '
                         'mutable identifier iterators; for identifier nodes the class (write/read/function) and the name are solver variables; obligation per path of the drained iterator: '
                         'the yielded references are exactly the identifier strings of the nodes whose class the iterator selects, in pre-order, with the right names; '
                         'the stated consequence: (origin) Operator::eval / eval_mut for all %d operator variants x argument vectors of length 0..3 x 3 context kinds report '
                         'VariableIdentifierNotFound(n) / FunctionIdentifierNotFound(n) only for their own identifier n or, for the 9 assignment operators, for the target string n, and '
                         'VariableIdentifierWrite{n} evaluates to the string n; (target) `target op= 1` for 9 assignment operators x 4 target forms (identifier with a symbolic name, string '
                         'literal, parenthesised string literal, variable holding a string) evaluated from MIR: the reported unknown name must be in the MIR-executed iter_identifiers list' % (maxn, len(ALL_OPS)),
                    explanation='bounded symbolic verification of NodeIter::next / OperatorIterMut::next and the filter_map closures from MIR; shapes are enumerated, classes and names are '
                                'quantified by the solver (this is the weakest use of the technique among the claimed properties: the shape space is enumerated)',
                    assumptions=['trees need not be parser-reachable (the iterators are public API on any Node)',
                                 'a node result is the unchanged error of its first failing child or the result of Operator::eval[_mut] on its own operator: the C08 inductive step (decided by C08/C11/C13), used here to lift the operator-level origin claim to trees of any depth',
                                 'user functions do not themselves return *IdentifierNotFound errors naming other identifiers; where the crate nevertheless defends against that (with builtins enabled a FunctionIdentifierNotFound from the context is re-reported under the node\'s own identifier) the defence is checked',
                                 'renaming through the mutable iterators and in the context commutes with evaluation because lookups use exactly the stored identifier (origin units; C09 dispatch): not decided as a separate relational query',
                                 'Iterator::filter_map is modelled (lazy adaptor); slice iterators are native models'],
                    bounds=dict(max_nodes=maxn, iterators=10, solver_timeout_ms=timeout_ms))


if __name__ == '__main__':
    main()
