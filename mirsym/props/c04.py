"""C04 — variables keep the last assigned value; HashMapContext is type safe.

One inductive step from an arbitrary pre-state: HashMapContext methods and Operator::eval_mut for the 9 assignment operators are executed
from MIR on a pre-state whose variable map is any map over two names with values of any of the 6 types (symbolic payloads), an optional
user function and a symbolic builtin flag; the result and the complete post-state must equal those of an abstract map model."""
import zlib
import sys, os, time, random, itertools, re
import z3
sys.path.insert(0, os.path.dirname(os.path.dirname(os.path.abspath(__file__))))
import frontend, checklib, replay, models
from harness import *
from shapes import *
from ctxlib import *
import c03

PID = 'C04'
CVC5_RATE = [0.01]
TYPES = ['I', 'F', 'B', 'S1', 'T1', 'E']
TYPE_ERR = {'I': 'ExpectedInt', 'F': 'ExpectedFloat', 'B': 'ExpectedBoolean', 'S': 'ExpectedString', 'T': 'ExpectedTuple', 'E': 'ExpectedEmpty'}
OPASSIGN = {'AddAssign': 'Add', 'SubAssign': 'Sub', 'MulAssign': 'Mul', 'DivAssign': 'Div', 'ModAssign': 'Mod', 'ExpAssign': 'Exp', 'AndAssign': 'And', 'OrAssign': 'Or'}
_C = {}


def ctx():
    if 'c' not in _C:
        _C['c'] = Ctx(frontend.load(overflow_checks=True), overflow_checks=True)
    return _C['c']


class Pre(object):
    """symbolic pre-state: which of x, y are bound and to which type"""

    def __init__(self, C, tx, ty, with_fn, extra=0):
        self.C = C
        self.cons = []
        self.vars = {}      # name -> (value adt, spec)
        for n, t in [('x', tx), ('y', ty)] + [('w%d' % i, ['I', 'S1', 'F'][i % 3]) for i in range(extra)]:
            if t is not None:
                v, s = make_value(C, t, 'pre_' + n, self.cons)
                self.vars[n] = (v, s)
        self.with_fn = with_fn
        self.flag = z3.Bool('pre_disabled')
        self.desc = 'x:%s y:%s fn:%s%s' % (tx, ty, with_fn, ' +%d more variables' % extra if extra else '')

    def build(self, st):
        return build_context(self.C, st, variables=[(n, copy_value(v)) for n, (v, s) in self.vars.items()],
                             functions=[('f', 'marker')] if self.with_fn else [], disabled=self.flag)

    def model(self):
        return dict((n, s) for n, (v, s) in self.vars.items())


def post_state_claim(C, cv, want_vars, want_fn, want_flag):
    f = ctx_fields(C, cv)
    fn_keys = sorted(k.concrete() for k in f['functions'].keys)
    return z3.And(map_equal_terms(C, f['variables'], want_vars), z3.BoolVal(fn_keys == (['f'] if want_fn else [])), f['without_builtin_functions'] == want_flag)


def set_value_model(pre_vars, name, vspec):
    """abstract step: returns list of (cond, outcome, post_vars); outcome ('ok',) | ('err', error name, actual spec)"""
    T = z3.BoolVal(True)
    if name in pre_vars:
        cur = pre_vars[name]
        if cur[0] == vspec[0]:
            post = dict(pre_vars)
            post[name] = vspec
            return [(T, ('ok',), post)]
        return [(T, ('err', TYPE_ERR[cur[0]], vspec), dict(pre_vars))]
    post = dict(pre_vars)
    post[name] = vspec
    return [(T, ('ok',), post)]


def result_claim(C, o, outcome, ok_value_is_empty=True):
    meta = C.meta
    if o.kind != 'return':
        return z3.BoolVal(False)
    r = o.value
    if outcome[0] == 'ok':
        if r.variant != 0:
            return z3.BoolVal(False)
        v = r.fields[0]
        if isinstance(v, Adt) and v.ty == 'Value':
            return z3.BoolVal(meta.enums['Value'][v.variant][0] == 'Empty')
        return z3.BoolVal(True)       # Result<(), _>
    if r.variant != 1:
        return z3.BoolVal(False)
    e = r.fields[0]
    if error_name(meta, e) != outcome[1]:
        return z3.BoolVal(False)
    if outcome[2] is not None:
        return value_matches_spec(meta, e.fields[0], outcome[2])
    return z3.BoolVal(True)


def run_on_context(C, res, body, pre, mkargs):
    """run body with a context built from pre; returns (outs, ctx holder)"""
    holder = {}

    def args(st):
        cv = pre.build(st)
        c = ref_to(st, cv, mut=True)
        holder['c'] = c
        return mkargs(st, c)
    t0 = time.time()
    ex, outs = C.run(body, args, pc=pre.cons + holder.get('cons', []))
    res.exec_s += time.time() - t0
    res.feas_queries += ex.nq
    res.bodies |= ex.bodies_used
    res.models |= ex.models_used
    res.paths += len(outs)
    return ex, outs, holder


def final_ctx(ex, o, holder):
    """the context object in the final state of path o (cells are fork-stable by id)"""
    want = holder['c'].cell.id
    st = o.state
    # the root frame is gone; find the cell through the outcome's retained references
    return o.extra_ctx


def unit(u, res):
    kind = u[0]
    if kind == 'step':
        import c08
        return c08.unit(u[1], res)
    C = ctx()
    # (unit tuples of kind set/assign may carry a trailing `extra variables` element: the timeout is at a fixed position, not second to last)
    timeout_ms = u[6] if kind in ('set', 'assign') else u[-2]
    assert isinstance(timeout_ms, int) and timeout_ms >= 1000, 'bad unit tuple %r' % (u,)
    pr = checklib.Prover(res, timeout_ms, CVC5_RATE[0], random.Random(zlib.crc32(repr(u).encode()) ^ checklib.env_seed()))
    if kind == 'set':
        _, tx, ty, name, tv, with_fn, timeout_ms, seed = u[:8]
        pre = Pre(C, tx, ty, with_fn, extra=(u[8] if len(u) > 8 else 0))
        cons2 = []
        v, vs = make_value(C, tv, 'new', cons2)
        body = C.method('HashMapContext', 'set_value', trait='ContextWithMutableVariables')
        cases = set_value_model(pre.model(), name, vs)
        check_mutation(C, res, pr, 'set_value(%s, %s) on %s' % (name, tv, pre.desc), body, pre, cons2,
                       lambda st, c: [c, sstr(name), copy_value(v)], cases, pre.with_fn, pre.flag, role='set_value',
                       exact_op=lambda m: ['set', name, spec_concrete(vs, m)])
    elif kind == 'assign':
        _, opname, tx, ty, name, tv, timeout_ms, seed = u[:8]
        pre = Pre(C, tx, ty, False, extra=(u[8] if len(u) > 8 else 0))
        cons2 = []
        v, vs = make_value(C, tv, 'rhs', cons2)
        body = C.method('Operator', 'eval_mut')
        if opname == 'Assign':
            cases = set_value_model(pre.model(), name, vs)
        else:
            pv = pre.model()
            if name not in pv:
                cases = [(z3.BoolVal(True), ('err', 'VariableIdentifierNotFound', None), dict(pv))]
            else:
                # x op= e  ==  x = x op e : the reference for `x op e` is C03's independent reference
                cases = []
                for cond, want in c03.reference(OPASSIGN[opname], pv[name], vs):
                    if want[0] == 'val':
                        for c2, oc, post in set_value_model(pv, name, want[1]):
                            cases.append((z3.And(cond, c2), oc, post))
                    elif want[0] == 'arith':
                        cases.append((cond, ('err', c03.ARITH_ERR[OPASSIGN[opname]], None), dict(pv)))
                    else:
                        cases.append((cond, ('errclass', c03.TYPE_ERRS), dict(pv)))
        check_mutation(C, res, pr, '%s %s %s on %s' % (name, opname, tv, pre.desc), body, pre, cons2,
                       lambda st, c: [ref_to(st, C.operator(opname)), ref_to(st, VecV([C.v_str(name), copy_value(v)])), c], cases, False, pre.flag, role='assignment',
                       exact_op=lambda m: ['assign', opname, name, spec_concrete(vs, m)])
    elif kind == 'misc':
        _, what, tx, ty, with_fn, timeout_ms, seed = u
        pre = Pre(C, tx, ty, with_fn)
        pv = pre.model()
        T = z3.BoolVal(True)
        if what == 'clear_variables':
            body = C.method('HashMapContext', 'clear_variables')
            check_mutation(C, res, pr, 'clear_variables on ' + pre.desc, body, pre, [], lambda st, c: [c], [(T, ('unit',), {})], with_fn, pre.flag, role='clear')
        elif what == 'clear_functions':
            body = C.method('HashMapContext', 'clear_functions')
            check_mutation(C, res, pr, 'clear_functions on ' + pre.desc, body, pre, [], lambda st, c: [c], [(T, ('unit',), dict(pv))], False, pre.flag, role='clear')
        elif what == 'clear':
            body = C.method('HashMapContext', 'clear')
            check_mutation(C, res, pr, 'clear on ' + pre.desc, body, pre, [], lambda st, c: [c], [(T, ('unit',), {})], False, pre.flag, role='clear')
        elif what == 'set_function':
            body = C.method('HashMapContext', 'set_function', trait='ContextWithMutableFunctions')
            check_mutation(C, res, pr, 'set_function on ' + pre.desc, body, pre, [],
                           lambda st, c: [c, sstr('f'), user_function(C, st, 'f', 'identity')], [(T, ('ok',), dict(pv))], True, pre.flag, role='set_function')
        elif what in ('disable_true', 'disable_false'):
            b = what.endswith('true')
            body = C.method('HashMapContext', 'set_builtin_functions_disabled', trait='Context')
            check_mutation(C, res, pr, what + ' on ' + pre.desc, body, pre, [], lambda st, c: [c, z3.BoolVal(b)], [(T, ('ok',), dict(pv))], with_fn, z3.BoolVal(b), role='builtin switch')
        elif what.startswith('get_'):
            name = what[4:]
            body = C.method('HashMapContext', 'get_value', trait='Context')
            ex, outs, holder = run_on_context(C, res, body, pre, lambda st, c: [c, ref_to(st, sstr(name))])
            for o in outs:
                res.nontrivial_paths += 1
                if o.kind != 'return':
                    claim = z3.BoolVal(False)
                elif name in pv:
                    claim = value_matches_spec(C.meta, ex.deref_all(o.value.fields[0]), pv[name]) if o.value.variant == 1 else z3.BoolVal(False)
                else:
                    claim = z3.BoolVal(o.value.variant == 0)
                post = ex.deref_all_in(o.state, holder['c']) if hasattr(ex, 'deref_all_in') else None
                verdict, model = pr.prove('get_value(%s) on %s' % (name, pre.desc), o.pc, claim)
                if verdict == 'sat':
                    res.sat.append(dict(key='get_value', witness='get_value(%s) on pre-state %s' % (name, pre.desc), pre=pre.desc))
        elif what in ('iter_variables', 'iter_variable_names'):
            body = C.method('HashMapContext', what, trait='IterateVariablesContext')
            drain = models.synth_static(C.new_exec(), '__drain')
            # run the method, then drain the returned iterator through a second run seeded with the first run's state
            holder = {}

            def args(st):
                cv = pre.build(st)
                holder['c'] = ref_to(st, cv)
                return [holder['c']]
            ex, outs = C.run(body, args, pc=pre.cons)
            res.paths += len(outs)
            for o in outs:
                res.nontrivial_paths += 1
                it = o.value
                ex2 = C.new_exec()
                from engine import State, Frame
                st2 = o.state
                fr = Frame(drain)
                fr.locals[drain.args[0]] = st2.new_cell(Ref(st2.new_cell(it), []))
                st2.frames.append(fr)
                outs2 = ex2.run(st2)
                res.bodies |= ex2.bodies_used
                res.models |= ex2.models_used
                for o2 in outs2:
                    items = o2.value.items if o2.kind == 'return' else None
                    if items is None or len(items) != len(pv):
                        claim = z3.BoolVal(False)
                    else:
                        cl = []
                        seen = []
                        for item in items:
                            if what == 'iter_variables':
                                k = item.fields[0].concrete()
                                if k not in pv or k in seen:
                                    cl.append(z3.BoolVal(False))
                                    continue
                                seen.append(k)
                                cl.append(value_matches_spec(C.meta, item.fields[1], pv[k]))
                            else:
                                k = item.concrete()
                                cl.append(z3.BoolVal(k in pv and k not in seen))
                                seen.append(k)
                        claim = z3.And(*cl) if cl else z3.BoolVal(True)
                    verdict, model = pr.prove('%s on %s' % (what, pre.desc), o2.pc, claim)
                    if verdict == 'sat':
                        res.sat.append(dict(key=what, witness='%s on pre-state %s' % (what, pre.desc), pre=pre.desc))
        elif what == 'clone_from':
            body = C.p.find_method('Clone', 'HashMapContext', 'clone_from')
            if body is None:
                # derived / default clone_from = `*self = source.clone()`: covered by the clone unit
                res.obligations += 1
                res.discharged += 1
                return
            other = Pre(C, 'S1' if tx != 'S1' else 'I', None, not with_fn)
            other.flag = z3.Bool('other_disabled')
            holder = {}

            def args(st):
                holder['c'] = ref_to(st, other.build(st), mut=True)
                return [holder['c'], ref_to(st, pre.build(st))]
            ex, outs = C.run(body, args, pc=pre.cons + other.cons)
            res.paths += len(outs)
            res.bodies |= ex.bodies_used
            for o in outs:
                res.nontrivial_paths += 1
                cv = find_cell(o.state, holder['c'].cell.id, o)
                claim = post_state_claim(C, cv, pv, with_fn, pre.flag) if (o.kind == 'return' and cv is not None) else z3.BoolVal(False)
                verdict, model = pr.prove('clone_from on %s' % pre.desc, o.pc, claim)
                if verdict == 'sat':
                    res.sat.append(dict(key='clone_from does not reproduce the source state', witness='b.clone_from(&a) with a = %s: b differs from a afterwards' % pre.desc, pre=pre.desc, clone_from=True))
        elif what == 'clone':
            body = C.p.find_method('Clone', 'HashMapContext', 'clone')
            holder = {}

            def args(st):
                cv = pre.build(st)
                holder['c'] = ref_to(st, cv)
                return [holder['c']]
            ex, outs = C.run(body, args, pc=pre.cons)
            res.paths += len(outs)
            res.bodies |= ex.bodies_used
            for o in outs:
                res.nontrivial_paths += 1
                if o.kind != 'return':
                    claim = z3.BoolVal(False)
                else:
                    claim = post_state_claim(C, o.value, pv, with_fn, pre.flag)
                    # independence: the clone shares no cell with the original's maps (value model: maps are values, not references)
                verdict, model = pr.prove('clone on %s' % pre.desc, o.pc, claim)
                if verdict == 'sat':
                    res.sat.append(dict(key='clone', witness='clone of pre-state %s differs' % pre.desc, pre=pre.desc))
    if len(res.samples) < 1:
        res.samples.append(dict(unit=str(u[:6]), paths=res.paths))


def check_mutation(C, res, pr, name, body, pre, cons2, mkargs, cases, want_fn, want_flag, role, exact_op=None):
    holder = {}

    def args(st):
        cv = pre.build(st)
        c = ref_to(st, cv, mut=True)
        holder['c'] = c
        return mkargs(st, c)
    t0 = time.time()
    ex, outs = C.run(body, args, pc=pre.cons + cons2)
    res.exec_s += time.time() - t0
    res.feas_queries += ex.nq
    res.bodies |= ex.bodies_used
    res.models |= ex.models_used
    res.paths += len(outs)
    cid = holder['c'].cell.id
    for o in outs:
        res.nontrivial_paths += 1
        cv = find_cell(o.state, cid, o)
        alts = []
        for cond, outcome, post in cases:
            if outcome[0] == 'unit':
                rc = z3.BoolVal(o.kind == 'return')
            elif outcome[0] == 'errclass':
                rc = z3.BoolVal(o.kind == 'return' and o.value.variant == 1 and error_name(C.meta, o.value.fields[0]) in outcome[1])
            else:
                rc = result_claim(C, o, outcome)
            pc_ = post_state_claim(C, cv, post, want_fn, want_flag) if cv is not None else z3.BoolVal(False)
            alts.append(z3.And(cond, rc, pc_))
        claim = z3.Or(*alts) if alts else z3.BoolVal(False)
        verdict, model = pr.prove(name, o.pc, claim)
        if verdict == 'sat':
            pre_vars = [(n, spec_concrete(s, model)) for n, (v, s) in pre.vars.items()]
            res.sat.append(dict(key='%s step differs from the map model' % role, witness=name + ': got %s' % (render_result(C.meta, o.value, model) if o.kind == 'return' and isinstance(o.value, Adt) and o.value.ty == 'Result' else o.kind,),
                                pre=pre.desc, unit=name, pre_vars=pre_vars, with_fn=pre.with_fn, disabled=bool(z3.is_true(model.eval(pre.flag, model_completion=True))),
                                op=exact_op(model) if exact_op else None))


def find_cell(st, cid, o):
    """locate the context cell in a finished state: it is kept alive by the outcome's anchor list"""
    for c in getattr(st, 'anchors', []):
        if c.id == cid:
            return c.val
    return None


# ---------------------------------------------------------------- replay: histories through the native crate vs a python map model
def replay_ce(ce):
    """The step counterexample names a pre-state shape and an operation; natively we establish every pre-state type through the public API,
    apply every assignment operator with a right-hand side of every type and judge the outcome with an independent concrete reference
    (C03's operator reference followed by the type-safe map assignment)."""
    import struct
    if ce.get('clone_from'):
        details = []
        bad = False
        for prof in ('dev', 'release'):
            for dis in (False, True):
                out = replay.run_cases(replay.case_text('c', 'none', '', vars=[('x', ('Int', 5)), ('s', ('String', 'a'))], funcs=[('f', 'log')], disabled=dis, ops=['clonefrom', 'call %s I:1' % replay.hx('f')]), prof)['c']
                okk = out.get('vars') == {'x': ('Int', 5), 's': ('String', 'a')} and out.get('disabled') == dis and [n for n, a in out.get('log', [])] == ['f']
                details.append('%s: a = {x: 5, s: "a", f, disabled %s}; b.clone_from(&a) -> b = %s disabled %s calls %s' % (prof, dis, out.get('vars'), out.get('disabled'), out.get('log')))
                bad = bad or not okk
        return ('reproduced' if bad else 'not_reproduced'), details
    ex_ = exact_replay(ce)
    if ex_ is not None and ex_[0] == 'reproduced':
        return ex_
    vals = {'I': ('Int', 5), 'F': ('Float', struct.unpack('<Q', struct.pack('<d', 2.5))[0]), 'B': ('Boolean', True), 'S1': ('String', 'a'), 'T1': ('Tuple', [('Int', 1)]), 'E': ('Empty',)}
    vals2 = dict(vals, B2=('Boolean', False))
    lits = {'I': ('7', ('Int', 7)), 'F': ('1.5', ('Float', struct.unpack('<Q', struct.pack('<d', 1.5))[0])), 'B': ('false', ('Boolean', False)), 'Bt': ('true', ('Boolean', True)),
            'S1': ('"b"', ('String', 'b')), 'T1': ('(2, 3)', ('Tuple', [('Int', 2), ('Int', 3)])), 'E': ('()', ('Empty',))}
    ops = {'=': 'Assign', '+=': 'AddAssign', '-=': 'SubAssign', '*=': 'MulAssign', '/=': 'DivAssign', '%=': 'ModAssign', '^=': 'ExpAssign', '&&=': 'AndAssign', '||=': 'OrAssign'}
    details = []
    bad = False
    progs = [(t0_, sym, t1_) for t0_ in vals2 for sym in ops for t1_ in lits]
    for prof in ('dev', 'release'):
        text = ''
        for i, (t0_, sym, t1_) in enumerate(progs):
            text += replay.case_text('p%d' % i, 'eval_with_context_mut', 'x %s %s' % (sym, lits[t1_][0]), vars=[('x', vals2[t0_]), ('y', ('Int', 1))])
        text += replay.case_text('fresh', 'eval_with_context_mut', 'z = 4; z', vars=[('y', ('Int', 1))])
        out = replay.run_cases(text, prof)
        for i, (t0_, sym, t1_) in enumerate(progs):
            o = out['p%d' % i]
            r = o.get('result')
            after = o['vars'].get('x')
            cur, rhs = vals2[t0_], lits[t1_][1]
            if sym == '=':
                newv, errc = rhs, None
            else:
                want = c03.concrete_reference(OPASSIGN[ops[sym]], c03.tuple_fix(cur), c03.tuple_fix(rhs))
                if want is None:
                    continue
                if want[0] == 'val':
                    newv, errc = spec_to_py(want[1]), None
                else:
                    newv, errc = None, want[0]
            if errc is not None:
                okk = bool(r and r[0] == 'Err' and after == cur and
                           ((errc == 'arith' and r[1] == c03.ARITH_ERR.get(OPASSIGN[ops[sym]])) or (errc == 'type' and r[1] in c03.TYPE_ERRS)))
            elif newv is None:
                continue      # reference value not concrete (uninterpreted libm): not judged
            elif newv[0] == cur[0]:
                okk = bool(r == ('Ok', ('Empty',)) and same_py(after, newv))
            else:
                okk = bool(r and r[0] == 'Err' and r[1] == TYPE_ERR[{'Int': 'I', 'Float': 'F', 'Boolean': 'B', 'String': 'S', 'Tuple': 'T', 'Empty': 'E'}[cur[0]]] and after == cur)
            if not okk:
                bad = True
                details.append('%s: x = %s ; `x %s %s` -> %s, x afterwards %s' % (prof, cur, sym, lits[t1_][0], r, after))
        # the builtin switch: every history of set_builtin_functions_disabled ends in the last value set, variables untouched
        hist = [[], [1], [0], [1, 0], [0, 1], [1, 1, 0], [0, 0, 1], [1, 0, 1, 0]]
        for start in (False, True):
            t2 = ''.join(replay.case_text('h%d' % i, 'none', '', vars=[('y', ('Int', 1))], disabled=start, ops=['disable %d' % b for b in h]) for i, h in enumerate(hist))
            o2 = replay.run_cases(t2, prof)
            for i, h in enumerate(hist):
                want = bool(h[-1]) if h else start
                if o2['h%d' % i].get('disabled') != want or o2['h%d' % i]['vars'] != {'y': ('Int', 1)}:
                    bad = True
                    details.append('%s: builtins disabled = %s, then set_builtin_functions_disabled%s -> disabled %s, variables %s'
                                   % (prof, start, h, o2['h%d' % i].get('disabled'), o2['h%d' % i]['vars']))
            # clearing removes variables and/or functions and nothing else: the switch stays, the other map stays
            for j, (op_, keeps_vars, keeps_fn) in enumerate([('clear_variables', False, True), ('clear_functions', True, False), ('clear', False, False)]):
                o3 = replay.run_cases(replay.case_text('c', 'none', '', vars=[('y', ('Int', 1)), ('s', ('String', 'a'))], funcs=[('f', 'log')], disabled=start,
                                                       ops=[op_, 'call %s I:1' % replay.hx('f')]), prof)['c']
                called = [n for n, a in o3.get('log', [])] == ['f']
                wantv = {'y': ('Int', 1), 's': ('String', 'a')} if keeps_vars else {}
                if o3.get('disabled') != start or o3['vars'] != wantv or called != keeps_fn:
                    bad = True
                    details.append('%s: {y, s, f, builtins disabled = %s}.%s() -> variables %s, f callable %s, disabled %s' % (prof, start, op_, o3['vars'], called, o3.get('disabled')))
        f = out['fresh']
        if f.get('result') != ('Ok', ('Int', 4)) or f['vars'].get('z') != ('Int', 4) or f['vars'].get('y') != ('Int', 1):
            bad = True
            details.append('%s: fresh assignment `z = 4; z` -> %s, context %s' % (prof, f.get('result'), f['vars']))
    return ('reproduced' if bad else 'not_reproduced'), details[:6] or ['native histories agree with the map model on the probe programs']


def exact_replay(ce):
    """replay the solver's own pre-state and operation natively and compare the post-state bit for bit with the python map model"""
    if not ce.get('op') or ce.get('pre_vars') is None:
        return None
    op = ce['op']
    pre = dict((n, c03.tuple_fix(v)) for n, v in ce['pre_vars'])
    sym = {'Assign': '=', 'AddAssign': '+=', 'SubAssign': '-=', 'MulAssign': '*=', 'DivAssign': '/=', 'ModAssign': '%=', 'ExpAssign': '^=', 'AndAssign': '&&=', 'OrAssign': '||='}
    tname = {'Int': 'I', 'Float': 'F', 'Boolean': 'B', 'String': 'S', 'Tuple': 'T', 'Empty': 'E'}
    details = []
    bad = False
    for prof in ('dev', 'release'):
        if op[0] == 'set':
            name, val = op[1], c03.tuple_fix(op[2])
            out = replay.run_cases(replay.case_text('c', 'none', '', vars=list(pre.items()), ops=['set %s %s' % (replay.hx(name), replay.enc_value(val))]), prof)['c']
            newv, errc = val, None
            res_line = out['ops'][0] if out['ops'] else None
            okr = None
        else:
            opname, name, val = op[1], op[2], c03.tuple_fix(op[3])
            vars_ = dict(pre)
            vars_['rhs__'] = val
            out = replay.run_cases(replay.case_text('c', 'eval_with_context_mut', '%s %s rhs__' % (name, sym[opname]), vars=list(vars_.items())), prof)['c']
            if opname == 'Assign':
                newv, errc = val, None
            elif name not in pre:
                newv, errc = None, 'notfound'
            else:
                want = c03.concrete_reference(OPASSIGN[opname], pre[name], val)
                if want is None:
                    return None
                newv, errc = (spec_to_py(want[1]), None) if want[0] == 'val' else (None, want[0])
                if want[0] == 'val' and newv is None:
                    return None
        after = dict(out.get('vars', {}))
        after.pop('rhs__', None)
        expect = dict(pre)
        if errc is None:
            if name in pre and pre[name][0] != newv[0]:
                pass                      # type error: unchanged
            else:
                expect[name] = newv
        okk = set(after) == set(expect) and all(same_py(after[k], expect[k]) for k in expect)
        details.append('%s: pre %s ; %s -> variables afterwards %s ; map model %s' % (prof, pre, op, after, expect))
        bad = bad or not okk
    return ('reproduced' if bad else 'not_reproduced'), details


def spec_to_py(s):
    from harness import f64_bits
    k = s[0]
    try:
        if k == 'I':
            return ('Int', z3.simplify(s[1]).as_signed_long())
        if k == 'F':
            b = f64_bits(s[1])
            return ('Float', b) if b is not None else None
        if k == 'B':
            t = z3.simplify(s[1])
            return ('Boolean', z3.is_true(t)) if (z3.is_true(t) or z3.is_false(t)) else None
        if k == 'S':
            return ('String', ''.join(chr(z3.simplify(c).as_long()) for c in s[1]))
        if k == 'T':
            items = [spec_to_py(x) for x in s[1]]
            return None if any(i is None for i in items) else ('Tuple', items)
        return ('Empty',)
    except Exception:
        return None


def same_py(a, b):
    if a is None or b is None:
        return False
    if a[0] == 'Float' and b[0] == 'Float':
        return a[1] == b[1]
    return a == b


def main():
    t0 = time.time()
    tier = checklib.env_tier()
    seed = checklib.env_seed()
    CVC5_RATE[0] = 0.01 if tier == 'quick' else 0.1
    timeout_ms = 60000 if tier == 'quick' else 600000
    frontend.load(overflow_checks=True)
    opts = [None] + TYPES
    units = []
    for tx in opts:
        for ty in (opts if tier != 'quick' else [None, 'I', 'S1']):
            for name in ('x', 'y', 'z'):
                for tv in TYPES:
                    units.append(('set', tx, ty, name, tv, (tx == 'I'), timeout_ms, seed))
    for opname in ['Assign'] + list(OPASSIGN):
        for tx in opts:
            for name in ('x', 'z'):
                for tv in TYPES:
                    units.append(('assign', opname, tx, 'B' if tier != 'quick' else None, name, tv, timeout_ms, seed))
    # pre-states with more live variables (4 and 5 bindings): same operations
    for tx in opts:
        for name in ('x', 'w1', 'z'):
            for tv in ('I', 'S1', 'E'):
                units.append(('set', tx, 'B', name, tv, False, timeout_ms, seed, 3))
        for opname in ('Assign', 'AddAssign', 'OrAssign'):
            for tv in ('I', 'B', 'S1'):
                units.append(('assign', opname, tx, 'F', 'x', tv, timeout_ms, seed, 3))
    for what in ('clear_variables', 'clear_functions', 'clear', 'set_function', 'disable_true', 'disable_false', 'get_x', 'get_z', 'iter_variables', 'iter_variable_names', 'clone', 'clone_from'):
        for tx in opts:
            for ty in (None, 'F', 'T1'):
                for with_fn in (False, True):
                    units.append(('misc', what, tx, ty, with_fn, timeout_ms, seed))
    # "... or by an expression": assignments anywhere in an expression reach Operator::eval_mut with the caller's context -- the C08 inductive step on
    # the mutable node evaluator (every node evaluates its children in order and applies its operator through eval_mut with that context)
    import c08
    sunits, maxk, _ = c08.make_units(tier, seed, PID)
    units += [('step', s) for s in sunits if s[2]]
    random.Random(seed).shuffle(units)
    results = checklib.run_units(checklib.safe_worker(unit), units)

    def rp(ce):
        if ('operator' in ce and 'children' in ce) or ce.get('walk'):
            return c08.replay_ce(ce)
        return replay_ce(ce)
    checklib.finish(PID, results, t0=t0, replay_fn=rp,
                    rule='one inductive step per (pre-state shape, operation): pre-states = maps over {x, y} with each name unbound or bound to a value of any of the 6 types '
                         '(payloads solver variables), optional user function, symbolic builtin flag; operations = set_value(name in {x,y,z}, value of each type), Operator::eval_mut for '
                         'Assign and the 8 op-assigns, get_value, clear_variables/clear_functions/clear, set_function, set_builtin_functions_disabled, iter_variables, '
                         'iter_variable_names, clone; obligation per path: result and complete post-state equal the abstract map step',
                    explanation='bounded symbolic verification of one step from an arbitrary pre-state (covers histories of any length restricted to <= 2 live variables); the reference for '
                                '`x op= e` is C03\'s independent operator reference followed by the type-safe assignment',
                    assumptions=['std HashMap is modelled as an association list (hashing / collisions not modelled); iteration order arbitrary: listings compared as sets',
                                 'at most two live variables and one user function (the code is uniform in names)', 'clone independence follows from maps being values in the model (no sharing)'],
                    bounds=dict(names=['x', 'y', 'z'], types=TYPES, solver_timeout_ms=timeout_ms))


if __name__ == '__main__':
    main()
