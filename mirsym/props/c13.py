"""C13 — malformed expressions are rejected, never given a meaning.

Unit: tokens_to_operator_tree on ALL token-kind sequences up to a length bound over the alphabet
{identifier, literal, BIN slot, SEQ slot, ASG slot, (, ), !, -}; slots are solver variables. An independent recogniser
(operator-precedence grammar over kinds, shares no code with evalexpr) decides which sequences are ill-formed."""
import sys, os, time, random, itertools
import z3
sys.path.insert(0, os.path.dirname(os.path.dirname(os.path.abspath(__file__))))
import frontend, checklib, replay
from harness import *
from skel import *

PID = 'C13'
ALPHA = ['a', '1', '?', '~', '=', '(', ')', '!', '-']
KIND = {'a': 'id', '1': 'int', '?': 'BIN13', '~': 'SEQ', '=': 'ASG', '(': '(', ')': ')', '!': 'tok:Not', '-': 'tok:Minus'}


# ---------------------------------------------------------------- independent recogniser
def wellformed(seq):
    toks = list(seq)
    n = len(toks)

    def p_seq(i):
        i = p_elem(i)
        while i is not None and i < n and toks[i] == '~':
            i = p_elem(i + 1)
        return i

    def p_elem(i):
        j = p_expr(i)
        return i if j is None else j

    def p_expr(i):
        i = p_unary(i)
        while i is not None and i < n and toks[i] in ('?', '-', '='):
            j = p_unary(i + 1)
            if j is None:
                return None
            i = j
        return i

    def p_unary(i):
        while i < n and toks[i] in ('!', '-'):
            i += 1
        return p_primary(i)

    def p_primary(i):
        if i >= n:
            return None
        t = toks[i]
        if t == '1':
            return i + 1
        if t == 'a':
            j = p_primary(i + 1)
            return i + 1 if j is None else j
        if t == '(':
            j = p_seq(i + 1)
            if j is None or j >= n or toks[j] != ')':
                return None
            return j + 1
        return None

    return p_seq(0) == n


def balanced(seq):
    d = 0
    for t in seq:
        if t == '(':
            d += 1
        elif t == ')':
            d -= 1
            if d < 0:
                return False
    return d == 0


def gen_wellformed(rng, n):
    """a random well-formed kind sequence of about n tokens (independent little grammar)"""
    def primary(budget, depth):
        r = rng.random()
        if budget >= 3 and depth < 3 and r < 0.25:
            return ['('] + seq(budget - 2, depth + 1) + [')']
        if budget >= 2 and r < 0.45:
            return ['a'] + primary(budget - 1, depth)
        return [rng.choice(['a', '1'])]

    def unary(budget, depth):
        out = []
        while budget > 1 and rng.random() < 0.2:
            out.append(rng.choice(['!', '-']))
            budget -= 1
        return out + primary(budget, depth)

    def expr(budget, depth):
        out = unary(max(1, budget // 2), depth)
        while len(out) + 2 <= budget and rng.random() < 0.75:
            out += [rng.choice(['?', '?', '-', '='])] + unary(max(1, (budget - len(out) - 1) // 2), depth)
        return out

    def seq(budget, depth):
        out = expr(budget, depth)
        while len(out) + 2 <= budget and rng.random() < 0.3:
            out += ['~'] + expr(budget - len(out) - 1, depth)
        return out
    return seq(n, 0)


def planted_defects(seed, lo, hi, count):
    """well-formed sequences of lo..hi tokens with exactly one planted defect: dropped operand, dropped operator, stray operand, stray or
    missing parenthesis, `( )` appended to an operand"""
    rng = random.Random(seed ^ 0xdefec7)
    out = []
    tries = 0
    while len(out) < count and tries < count * 30:
        tries += 1
        n = rng.randint(lo, hi)
        w = gen_wellformed(rng, n)
        if not wellformed(w) or not (lo - 1 <= len(w) <= hi + 1):
            continue
        k = rng.randrange(6)
        s = list(w)
        i = rng.randrange(len(s))
        if k == 0:
            ops = [j for j, t in enumerate(s) if t in ('a', '1')]
            if not ops:
                continue
            del s[rng.choice(ops)]
        elif k == 1:
            ops = [j for j, t in enumerate(s) if t in ('?', '=')]
            if not ops:
                continue
            del s[rng.choice(ops)]
        elif k == 2:
            s.insert(i, '1')
        elif k == 3:
            s.insert(i, rng.choice(['(', ')']))
        elif k == 4:
            ps = [j for j, t in enumerate(s) if t in ('(', ')')]
            if not ps:
                continue
            del s[rng.choice(ps)]
        else:
            ops = [j for j, t in enumerate(s) if t == '1']
            if not ops:
                continue
            j = rng.choice(ops)
            s[j + 1:j + 1] = ['(', ')']
        s = tuple(s)
        if lo <= len(s) <= hi + 2 and not wellformed(s):
            out.append(s)
    return out


def classify(seq):
    """role of an ill-formed sequence that was accepted (key for known findings)"""
    seq = list(seq)
    if not balanced(seq):
        return 'unbalanced-parentheses-accepted'
    for i, t in enumerate(seq):
        if t in ('?', '='):
            prev = seq[i - 1] if i > 0 else None
            if prev is None or prev in ('(', '~', '?', '=', '!', '-'):
                return 'binary-operator-in-operand-position'
    for i, t in enumerate(seq):
        if t == '(' and i > 0 and seq[i - 1] == '1':
            return 'parenthesis-group-directly-after-literal'
    return 'other-illformed-accepted'


# ---------------------------------------------------------------- arity table from the statement
def arity_ok(C, n):
    """concrete check: every node has the child count its operator class requires; returns list of z3 conditions under
    which all arities are right (symbolic operator variants are classified by their candidate sets)"""
    conds = []

    def walk(n):
        op = n.fields[0]
        kids = children(n)
        v = op.variant
        k = len(kids)
        if isinstance(v, int):
            name = C.meta.enums['Operator'][v][0]
            if name in ('Tuple', 'Chain'):
                ok_ = True
            elif name == 'RootNode':
                ok_ = k <= 1
            elif name in ('Neg', 'Not', 'FunctionIdentifier'):
                ok_ = k == 1
            elif name in ('Const', 'VariableIdentifierRead', 'VariableIdentifierWrite'):
                ok_ = k == 0
            else:
                ok_ = k == 2
            if not ok_:
                conds.append(z3.BoolVal(False))
        else:
            # symbolic payload-free variant: arity requirement as a function of the variant
            seqv = z3.Or(v == C.VI('Operator', 'Tuple'), v == C.VI('Operator', 'Chain'))
            un = z3.Or(v == C.VI('Operator', 'Neg'), v == C.VI('Operator', 'Not'))
            root = v == C.VI('Operator', 'RootNode')
            conds.append(z3.If(seqv, True, z3.If(un, k == 1, z3.If(root, k <= 1, k == 2))))
        for c in kids:
            walk(c)
    walk(n)
    return conds


_C = {}


def ctx():
    if 'c' not in _C:
        _C['c'] = Ctx(frontend.load(overflow_checks=True), overflow_checks=True)
    return _C['c']


def run_sequence(C, seq):
    names = 'abcdefgh'
    spec = []
    i = 0
    for t in seq:
        k = KIND[t]
        if k == 'id':
            spec.append('id:' + names[i % 8])
            i += 1
        else:
            spec.append(k)
    S = Skeleton(C, spec)
    ex, outs = S.run()
    return S, ex, outs


FIXED_ARITY = {'Add': 2, 'Sub': 2, 'Mul': 2, 'Div': 2, 'Mod': 2, 'Exp': 2, 'Eq': 2, 'Neq': 2, 'Gt': 2, 'Lt': 2, 'Geq': 2, 'Leq': 2, 'And': 2, 'Or': 2, 'Neg': 1, 'Not': 1,
               'Assign': 2, 'AddAssign': 2, 'SubAssign': 2, 'MulAssign': 2, 'DivAssign': 2, 'ModAssign': 2, 'ExpAssign': 2, 'AndAssign': 2, 'OrAssign': 2,
               'Const': 0, 'VariableIdentifierWrite': 0, 'VariableIdentifierRead': 0, 'FunctionIdentifier': 1}


def unit_arity(u, res):
    """second half of the argument "wrong arity => every evaluation fails": Operator::eval / eval_mut reject a wrong argument count for every
    argument value (the first half -- every node is evaluated and its operator applied -- is the C08 step, also run by this check)"""
    import c11
    _, opname, shapes, mutable, timeout_ms, seed = u
    C = ctx()
    pr = checklib.Prover(res, timeout_ms)
    cons, outs, holder, pre, flag = c11.run_op(C, res, opname, 'x', shapes, mutable, 'hashmap')
    for o in outs:
        res.nontrivial_paths += 1 if shapes else 0
        claim = z3.BoolVal(o.kind == 'return' and o.value.variant == 1)
        verdict, model = pr.prove('%s applied to %d arguments' % (opname, len(shapes)), o.pc, claim)
        if verdict == 'sat':
            res.sat.append(dict(key='operator accepts a wrong argument count', kinds='-', source='', arity=True,
                                witness='Operator::%s(%s) with %d arguments %s -> %s' % ('eval_mut' if mutable else 'eval', opname, len(shapes), shapes,
                                                                                         render_result(C.meta, o.value, model) if o.kind == 'return' else 'panic')))


def unit(u, res):
    if u[0] == 'step':
        import c08
        return c08.unit(u[1], res)
    if u[0] == 'arity':
        return unit_arity(u, res)
    seqs, timeout_ms, cvc5_rate, seed = u
    C = ctx()
    pr = checklib.Prover(res, timeout_ms, cvc5_rate, random.Random(seed))
    for seq in seqs:
        wf = wellformed(seq)
        bal = balanced(seq)
        if wf and not bal:
            res.inconclusive.append('recogniser inconsistency on %s' % ' '.join(seq))
            continue
        t0 = time.time()
        try:
            S, ex, outs = run_sequence(C, seq)
        except Unsupported as x:
            res.inconclusive.append('unsupported on %s: %s' % (' '.join(seq), x))
            continue
        res.exec_s += time.time() - t0
        res.feas_queries += ex.nq
        res.bodies |= ex.bodies_used
        res.models |= ex.models_used
        res.paths += len(outs)
        for pi, o in enumerate(outs):
            if S.slots:
                res.nontrivial_paths += 1
            name = '%s path %d' % (S.text(), pi)
            claims = []
            if o.kind == 'panic':
                continue      # panics are C01's subject
            r = o.value
            if pr.rng.random() < 0.01:
                fe_, m_ = pr.feasible(o.pc)
                if fe_:
                    validate_tree_path(C, res, S, o, m_, random.Random(1), 2.0)
            if bal:
                # balanced input is never reported as unbalanced
                en = error_name(C.meta, r.fields[0]) if r.variant == 1 else None
                claims.append(('balanced-reported-unbalanced', z3.BoolVal(en not in ('UnmatchedLBrace', 'UnmatchedRBrace'))))
            if not wf:
                if r.variant == 0:
                    if not bal:
                        claims.append((classify(seq), z3.BoolVal(False)))
                    else:
                        conds = arity_ok(C, r.fields[0])
                        all_ok = z3.And(*conds) if conds else z3.BoolVal(True)
                        claims.append((classify(seq), z3.Not(all_ok)))
                else:
                    claims.append(('rejected', z3.BoolVal(True)))
            for key, claim in claims:
                if z3.is_true(z3.simplify(claim)):
                    res.obligations += 1
                    res.discharged += 1
                    continue
                verdict, model = pr.prove(name, o.pc, claim)
                if verdict == 'sat':
                    src = S.render(model)
                    res.sat.append(dict(key=key, kinds=' '.join(seq), source=src, witness=src, wellformed=wf, balanced=bal,
                                        got=show_node(C.meta, r.fields[0], model) if r.variant == 0 else error_name(C.meta, r.fields[0])))
        if len(res.samples) < 1 and not wf:
            res.samples.append(dict(kinds=' '.join(seq), skeleton=S.text(), illformed=True, balanced=bal, paths=len(outs),
                                    outcomes=sorted(set((error_name(C.meta, o.value.fields[0]) if o.value.variant == 1 else 'Ok-tree') if o.kind == 'return' else 'panic' for o in outs))))


def replay_ce(ce):
    """The statement says an ill-formed expression never evaluates successfully in any context. The solver counterexample is a
    kind sequence + slot assignment that builds with all arities right; natively we search the slot assignments of that kind
    sequence (and two contexts) for one that really builds and evaluates to Ok. Found => reproduced; none => the arity proxy was
    violated but the statement was not ('benign')."""
    if ('operator' in ce and 'children' in ce) or ce.get('walk'):
        import c08
        return c08.replay_ce(ce)
    if ce.get('arity'):
        return 'not_reproduced', 'operator-level counterexample (needs a hand-built tree); see the witness'
    src = ce['source']
    kinds = ce['kinds'].split(' ')
    if ce['key'] in ('balanced-reported-unbalanced', 'unbalanced-parentheses-accepted'):
        details = []
        bad = False
        for prof in ('dev', 'release'):
            b = replay.run_cases(replay.case_text('b', 'build', src), prof)['b']
            r = b.get('build')
            if ce['key'] == 'balanced-reported-unbalanced':
                v = bool(r and r[0] == 'Err' and r[1] in ('UnmatchedLBrace', 'UnmatchedRBrace'))
            else:
                v = 'shape' in b
            details.append('%s: build -> %s' % (prof, b.get('shape') or r))
            bad = bad or v
        return ('reproduced' if bad else 'not_reproduced'), details
    choices = []
    for t in kinds:
        if t == '?':
            choices.append([TOKEN_TEXT[n] for n in BIN_TOKENS if n != 'Minus'])
        elif t == '=':
            choices.append([TOKEN_TEXT[n] for n in ASG_TOKENS])
        elif t == '~':
            choices.append([',', ';'])
        else:
            choices.append([t])
    names = iter('abcdefgh')
    choices = [[next(names)] if c == ['a'] else c for c in choices]
    cands = [' '.join(c) for c in itertools.islice(itertools.product(*choices), 4000)]
    if src not in cands:
        cands.insert(0, src)
    ctxs = [dict(vars=[(n, ('Int', 1)) for n in 'abcdefgh'], funcs=[(n, 'const:I:1') for n in 'abcdefgh']),
            dict(vars=[(n, ('Boolean', True)) for n in 'abcdefgh'], funcs=[(n, 'const:B:1') for n in 'abcdefgh']),
            dict(vars=[(n, ('String', 'a')) for n in 'abcdefgh'], funcs=[(n, 'log') for n in 'abcdefgh'])]
    text = ''
    for i, s in enumerate(cands):
        text += replay.case_text('b%d' % i, 'build', s)
        for j, cx in enumerate(ctxs):
            text += replay.case_text('e%d_%d' % (i, j), 'eval_with_context_mut', s, **cx)
    found = None
    for prof in ('dev', 'release'):
        out = replay.run_cases(text, prof)
        for i, s in enumerate(cands):
            if 'shape' not in out['b%d' % i]:
                continue
            for j in range(len(ctxs)):
                r = out['e%d_%d' % (i, j)].get('result')
                if r and r[0] == 'Ok':
                    found = '%s: `%s` builds to %s and evaluates to %s (context %d)' % (prof, s, out['b%d' % i]['shape'], r[1], j)
                    ce['witness'] = s
                    break
            if found:
                break
        if found:
            break
    if found:
        return 'reproduced', [found]
    return 'benign', ['no operator assignment of `%s` evaluates successfully in the tried contexts (%d candidates)' % (ce['kinds'], len(cands))]


def main():
    t0 = time.time()
    tier = checklib.env_tier()
    seed = checklib.env_seed()
    timeout_ms = 60000 if tier == 'quick' else 600000
    cvc5_rate = 0.002 if tier == 'quick' else 0.02
    N = 4 if tier == 'quick' else 5
    frontend.load(overflow_checks=True)
    seqs = [s for n in range(1, N + 1) for s in itertools.product(ALPHA, repeat=n)]
    # only sequences the claim speaks about: ill-formed ones, and balanced ones (second clause)
    seqs = [s for s in seqs if (not wellformed(s)) or balanced(s)]
    nexh = len(seqs)
    # beyond the exhaustive bound: (a) one planted defect in longer well-formed sequences, (b) seed-chosen random longer sequences
    longer = planted_defects(seed, N + 1, N + (3 if tier == 'quick' else 4), 900 if tier == 'quick' else 6000)
    rng = random.Random(seed ^ 0x5eed)
    for _ in range(600 if tier == 'quick' else 4000):
        n = rng.randint(N + 1, N + 4)
        longer.append(tuple(rng.choice(ALPHA) for _ in range(n)))
    # (c) the juxtaposition family, complete over its small grammar: two operands side by side (every pairing of literal, identifier, empty group,
    # group, call) at the top level, below a prefix operator, as the right operand of a binary / assignment operator, as a call argument, inside
    # parentheses; with and without a following operator
    operands = [['1'], ['a'], ['(', ')'], ['(', '1', ')'], ['(', 'a', ')'], ['a', '1'], ['a', '(', '1', ')']]
    prefixes = [[], ['-'], ['!'], ['a', '?'], ['1', '?'], ['a', '='], ['a'], ['1', '-'], ['1', '~']]
    suffixes = [[], ['?', '1']]
    for pre in prefixes:
        for x in operands:
            for y in operands:
                for suf in suffixes:
                    longer.append(tuple(pre + x + y + suf))
                    longer.append(tuple(['('] + pre + x + y + [')'] + suf))
    # (d) the operator-juxtaposition family: two operators side by side (every pairing of binary, minus, assignment, separator, prefix) after an operand or at
    # the start, followed by one or two operands (the second operator could absorb them prefix-style)
    ops2 = ['?', '-', '=', '~', '!']
    for pre in ([], ['1'], ['a'], ['(', '1', ')'], ['1', '?', '1'], ['a', '=', '1']):
        for o1 in ops2:
            for o2 in ops2:
                for tail in (['1'], ['1', '1'], ['a', '1'], ['1', 'a'], ['(', '1', ')', '1']):
                    longer.append(tuple(pre + [o1, o2] + tail))
                    longer.append(tuple(['('] + pre + [o1, o2] + tail + [')']))
    longer = [s for s in dict.fromkeys(longer) if (not wellformed(s)) or balanced(s)]
    seqs += longer
    random.Random(seed).shuffle(seqs)
    chunk = 24
    units = [(seqs[i:i + chunk], timeout_ms, cvc5_rate, seed) for i in range(0, len(seqs), chunk)]
    # evaluation half: a node of wrong arity makes every evaluation fail = (every node is evaluated, its operator applied: C08 step) + (wrong count rejected)
    import c08
    sunits, maxk, _ = c08.make_units(tier, seed, PID)
    units += [('step', s) for s in sunits]
    eshapes = ['I', 'B', 'S1', 'T1']
    for opname, a in FIXED_ARITY.items():
        for k in range(0, 4):
            if k == a:
                continue
            combos = list(itertools.product(eshapes, repeat=k))
            random.Random(seed).shuffle(combos)
            for shp in combos[:(6 if tier == 'quick' else 64)]:
                for mutable in (False, True):
                    units.append(('arity', opname, list(shp), mutable, timeout_ms, seed))
    random.Random(seed).shuffle(units)
    results = checklib.run_units(checklib.safe_worker(unit), units)
    nill = sum(1 for s in seqs if not wellformed(s))
    checklib.finish(PID, results, t0=t0, replay_fn=replay_ce, exhaustive=True,
                    rule='(exhaustive part: %d sequences; beyond it %d seed-chosen longer sequences: one planted defect in a well-formed sequence, and random ones) ALL %d token-kind sequences of length <= %d over {identifier, literal, BIN slot (13 non-minus binary operators), SEQ slot (2), ASG slot (9), (, ), !, -} that are '
                         'ill-formed by the independent recogniser (%d) or balanced; slots are solver variables; per path: ill-formed => Err or a node of '
                         'wrong arity (unbalanced => Err); balanced => never an unmatched-brace error' % (nexh, len(seqs) - nexh, nexh, N, nill),
                    explanation='bounded symbolic verification: tokens_to_operator_tree executed from MIR with symbolic operator/separator tokens over the complete '
                                'set of kind sequences within the bound; the verdict per path is z3\'s over all slot assignments',
                    assumptions=['the recogniser (40-line grammar over kinds) defines ill-formedness; `1 = 2`-style assignments to non-identifiers are well-formed for it',
                                 'a node of wrong arity makes every evaluation fail: decided here too -- the C08 inductive step (every node is evaluated and its operator applied) and Operator::eval[_mut] rejecting every wrong argument count',
                                 'sequences longer than the bound are outside the claim'],
                    bounds=dict(max_tokens=N, alphabet=ALPHA, sequences=len(seqs), illformed=nill, solver_timeout_ms=timeout_ms))


if __name__ == '__main__':
    main()
