"""C06 — literals denote exactly their value.

Unit: tokenize (str_to_partial_tokens, parse_string_literal, parse_escape_sequence, partial_tokens_to_tokens, parse_dec_or_hex,
from_hex_str) from MIR on literal templates whose characters are solver variables; oracle: a char-level reference."""
import sys, os, time, random, itertools
import z3
sys.path.insert(0, os.path.dirname(os.path.dirname(os.path.abspath(__file__))))
import frontend, checklib, replay, models
from harness import *

PID = 'C06'
PUNCT = '+-*/%^()=!<>&|,;'
K_INFNAN = 'word-inf-infinity-nan-lexed-as-float'


def is_digit(c):
    return z3.And(z3.UGE(c, ord('0')), z3.ULE(c, ord('9')))


def is_hexdigit(c):
    return z3.Or(is_digit(c), z3.And(z3.UGE(c, ord('a')), z3.ULE(c, ord('f'))), z3.And(z3.UGE(c, ord('A')), z3.ULE(c, ord('F'))))


def hexval(c):
    return z3.If(is_digit(c), c - ord('0'), z3.If(z3.UGE(c, ord('a')), c - ord('a') + 10, c - ord('A') + 10))


def word_char(c):
    return z3.And(valid_scalar(c), z3.Not(is_ws(c)), c != ord('"'), *[c != ord(p) for p in PUNCT])


def lower_is(c, ch):
    return z3.Or(c == ord(ch), c == ord(ch.upper()))


def ref_dec_value(cs):
    """exact value of the digit string as a 128-bit term: sum of digit * 10^k (constant powers; no chained multiplications)"""
    acc = z3.BitVecVal(0, 128)
    n = len(cs)
    for i, c in enumerate(cs):
        acc = acc + z3.ZeroExt(96, c - ord('0')) * z3.BitVecVal(10 ** (n - 1 - i), 128)
    return acc


def ref_hex_value(cs):
    """exact value of the hex digit string: the digits' nibbles concatenated"""
    acc = z3.BitVecVal(0, 128)
    n = len(cs)
    for i, c in enumerate(cs):
        acc = acc | (z3.ZeroExt(96, hexval(c)) << (4 * (n - 1 - i)))
    return acc


def ref_fits(ds, kind):
    """the numeral is < 2^63: shorter than the numeral of 2^63 - 1, or (same length, zero-padded) not above it digit by digit"""
    if kind == 'dec':
        bound = [int(ch) for ch in str(2 ** 63 - 1)]
        dv = [d - ord('0') for d in ds]
    else:
        bound = [int(ch, 16) for ch in '%x' % (2 ** 63 - 1)]
        dv = [hexval(d) for d in ds]
    if len(dv) < len(bound):
        return z3.BoolVal(True)
    bound = [0] * (len(dv) - len(bound)) + bound
    le = z3.BoolVal(True)
    for d, b in reversed(list(zip(dv, bound))):
        le = z3.If(z3.ULT(d, b), True, z3.If(z3.UGT(d, b), False, le))
    return le


def ref_is_float_word(cs):
    """documented float forms inside one word (no sign): digits [. digits] [e digits] | . digits [e digits], >= 1 mantissa digit"""
    n = len(cs)
    alts = []
    for ip in range(0, n + 1):
        for has_dot in (False, True):
            p = ip + (1 if has_dot else 0)
            if p > n:
                continue
            for fp in (range(0, n - p + 1) if has_dot else [0]):
                q = p + fp
                if ip + fp == 0:
                    continue
                base = [is_digit(c) for c in cs[:ip]]
                if has_dot:
                    base.append(cs[ip] == ord('.'))
                    base += [is_digit(c) for c in cs[p:q]]
                rest = cs[q:]
                if not rest:
                    alts.append(z3.And(*base))
                elif len(rest) >= 2:
                    alts.append(z3.And(*(base + [lower_is(rest[0], 'e')] + [is_digit(c) for c in rest[1:]])))
    return z3.Or(*alts) if alts else z3.BoolVal(False)


def word_is(cs, w):
    if len(cs) != len(w):
        return z3.BoolVal(False)
    return z3.And(*[lower_is(c, ch) for c, ch in zip(cs, w)])


def parse_uf(cs):
    """the shared uninterpreted f64 parser symbol (same name/arity scheme as models.parse_f64_value)"""
    py = None
    vals = [z3.simplify(c) for c in cs]
    if all(z3.is_bv_value(v) for v in vals):
        try:
            return models.fp_from_py(float(''.join(chr(v.as_long()) for v in vals)))
        except ValueError:
            pass
    n = len(cs)
    f = z3.Function('parse_f64_%d' % n, *([z3.BitVecSort(32)] * n + [F64]))
    return f(*cs)


_C = {}


def ctx():
    if 'c' not in _C:
        _C['c'] = Ctx(frontend.load(overflow_checks=True), overflow_checks=True)
    return _C['c']


def tok_name(meta, t):
    return meta.enums['Token'][t.variant][0] if isinstance(t.variant, int) else None


def single_token(meta, o):
    """the one token of an Ok([tok]) outcome, else None"""
    if o.kind != 'return' or o.value.variant != 0:
        return None
    items = o.value.fields[0].items
    return items[0] if len(items) == 1 else None


def str_payload_eq(tok, cs):
    items = tok.fields[0].items
    if len(items) != len(cs) or not all(isinstance(i, Int) for i in items):
        return z3.BoolVal(False)
    return z3.And(*[i.t == c for i, c in zip(items, cs)]) if cs else z3.BoolVal(True)


def run_tokenize(C, res, chars, cons):
    t0 = time.time()
    ex, outs = C.run('tokenize', lambda st: [ref_to(st, SStr([Int(c, False) if z3.is_expr(c) else mkchar(c) for c in chars]))], pc=cons)
    res.exec_s += time.time() - t0
    res.feas_queries += ex.nq
    res.bodies |= ex.bodies_used
    res.models |= ex.models_used
    res.paths += len(outs)
    return outs


def concrete_text(chars, model):
    out = []
    for c in chars:
        if z3.is_expr(c):
            out.append(chr(z3.simplify(model.eval(c, model_completion=True)).as_long()))
        else:
            out.append(c)
    return ''.join(out)


def describe(meta, o, model=None):
    if o.kind == 'panic':
        return 'panic: %s' % o.value
    if o.value.variant == 1:
        return 'Err(%s)' % error_name(meta, o.value.fields[0])
    out = []
    for t in o.value.fields[0].items:
        n = tok_name(meta, t) or '?'
        if t.fields:
            f = t.fields[0]
            if isinstance(f, SStr):
                n += ':%r' % render_str(f, model)
            elif isinstance(f, Int):
                v = eval_term(f.t, model)
                n += ':%s' % (v.as_signed_long() if z3.is_bv_value(v) else v)
            elif isinstance(f, Fl):
                n += ':%s' % (f64_py(f.t, model),)
            else:
                n += ':%s' % (f,)
        out.append(n)
    return '[' + ', '.join(out) + ']'


def unit(u, res):
    kind, spec, timeout_ms, cvc5_rate, seed = u
    C = ctx()
    meta = C.meta
    open_roles = set(k['key'] for k in checklib.load_known() if k.get('property') == PID and k.get('status', 'open') == 'open')
    pr = checklib.Prover(res, timeout_ms, cvc5_rate, random.Random(hash((seed, kind, str(spec))) & 0xffffffff))

    def oblige(name, chars, o, claim, key, extra_pc=()):
        res.nontrivial_paths += 1
        verdict, model = pr.prove(name, o.pc + list(extra_pc), claim)
        if len(res.samples) < 1:
            res.samples.append(dict(unit=name, path_condition=[str(z3.simplify(c))[:120] for c in o.pc[-2:]], outcome=describe(meta, o), verdict=verdict))
        if verdict == 'sat':
            src = concrete_text(chars, model)
            res.sat.append(dict(key=key, source=src, witness=repr(src), got=describe(meta, o, model), kind=kind))

    if kind == 'string':
        shapes = spec       # tuple of 'p' (plain) 'q' (escaped quote) 'b' (escaped backslash)
        cons = []
        t = []
        chars = ['"']
        for i, sh in enumerate(shapes):
            if sh == 'p':
                c = z3.BitVec('s%d' % i, 32)
                cons += [valid_scalar(c), c != ord('"'), c != ord('\\')]
                t.append(c)
                chars.append(c)
            elif sh == 'q':
                t.append(z3.BitVecVal(ord('"'), 32))
                chars += ['\\', '"']
            else:
                t.append(z3.BitVecVal(ord('\\'), 32))
                chars += ['\\', '\\']
        chars.append('"')
        name = 'string literal shape %s' % ''.join(shapes)
        for o in run_tokenize(C, res, chars, cons):
            tok = single_token(meta, o)
            claim = str_payload_eq(tok, t) if tok is not None and tok_name(meta, tok) == 'String' else z3.BoolVal(False)
            oblige(name, chars, o, claim, 'string-literal-not-exact')
    elif kind == 'badescape':
        pre, post = spec
        cons = []
        chars = ['"']
        for i in range(pre):
            c = z3.BitVec('p%d' % i, 32)
            cons += [valid_scalar(c), c != ord('"'), c != ord('\\')]
            chars.append(c)
        e = z3.BitVec('esc', 32)
        cons += [valid_scalar(e), e != ord('"'), e != ord('\\')]
        chars += ['\\', e]
        for i in range(post):
            c = z3.BitVec('q%d' % i, 32)
            cons += [valid_scalar(c)]
            chars.append(c)
        chars.append('"')
        for o in run_tokenize(C, res, chars, cons):
            claim = z3.BoolVal(o.kind == 'return' and o.value.variant == 1 and error_name(meta, o.value.fields[0]) == 'IllegalEscapeSequence')
            oblige('illegal escape %d+%d' % (pre, post), chars, o, claim, 'illegal-escape-accepted')
    elif kind == 'unclosed':
        n = spec
        cons = []
        chars = ['"']
        for i in range(n):
            c = z3.BitVec('u%d' % i, 32)
            cons += [valid_scalar(c), c != ord('"'), c != ord('\\')]
            chars.append(c)
        for o in run_tokenize(C, res, chars, cons):
            claim = z3.BoolVal(o.kind == 'return' and o.value.variant == 1 and error_name(meta, o.value.fields[0]) == 'UnmatchedDoubleQuote')
            oblige('unclosed string %d' % n, chars, o, claim, 'unclosed-string-accepted')
    elif kind in ('dec', 'hex'):
        d = spec
        cons = []
        ds = [z3.BitVec('d%d' % i, 32) for i in range(d)]
        cons += [(is_digit(c) if kind == 'dec' else is_hexdigit(c)) for c in ds]
        chars = (['0', 'x'] if kind == 'hex' else []) + ds
        val = ref_dec_value(ds) if kind == 'dec' else ref_hex_value(ds)
        fits = ref_fits(ds, kind)
        for o in run_tokenize(C, res, chars, cons):
            tok = single_token(meta, o)
            if tok is None:
                claim = z3.BoolVal(False)
            elif tok_name(meta, tok) == 'Int':
                claim = z3.And(fits, z3.ZeroExt(64, tok.fields[0].t) == val)
            elif kind == 'dec' and tok_name(meta, tok) == 'Float':
                # a digit string beyond the i64 range is a float literal in positional notation (the fixed rendering of a large double)
                claim = z3.And(z3.Not(fits), tok.fields[0].t == parse_uf(ds))
            elif kind == 'hex' and tok_name(meta, tok) == 'Identifier':
                claim = z3.And(z3.Not(fits), str_payload_eq(tok, [z3.BitVecVal(ord('0'), 32), z3.BitVecVal(ord('x'), 32)] + ds))
            else:
                claim = z3.BoolVal(False)
            oblige('%s literal with %d digits' % (kind, d), chars, o, claim, '%s-integer-literal-wrong' % kind)
    elif kind == 'template':
        tmpl, expect = spec
        cons = []
        chars = []
        for i, ch in enumerate(tmpl):
            if ch in 'DSEH':
                c = z3.BitVec('t%d' % i, 32)
                cons.append({'D': is_digit(c), 'S': z3.Or(c == ord('+'), c == ord('-')), 'E': lower_is(c, 'e'), 'H': is_hexdigit(c)}[ch])
                chars.append(c)
            else:
                chars.append(ch)
        terms = [c if z3.is_expr(c) else z3.BitVecVal(ord(c), 32) for c in chars]
        for o in run_tokenize(C, res, chars, cons):
            if o.kind != 'return' or o.value.variant != 0 or len(o.value.fields[0].items) != len(expect):
                claim = z3.BoolVal(False)
            else:
                cl = []
                for tok, ex_ in zip(o.value.fields[0].items, expect):
                    tn = tok_name(meta, tok)
                    if ex_[0] == 'F':
                        cl.append(tok.fields[0].t == parse_uf(terms[ex_[1]:ex_[2]]) if tn == 'Float' else z3.BoolVal(False))
                    elif ex_[0] == 'I10':
                        cl.append(z3.ZeroExt(64, tok.fields[0].t) == ref_dec_value(terms[ex_[1]:ex_[2]]) if tn == 'Int' else z3.BoolVal(False))
                    elif ex_[0] == 'I16':
                        cl.append(z3.ZeroExt(64, tok.fields[0].t) == ref_hex_value(terms[ex_[1]:ex_[2]]) if tn == 'Int' else z3.BoolVal(False))
                    elif ex_[0] == 'ID':
                        cl.append(str_payload_eq(tok, terms[ex_[1]:ex_[2]]) if tn == 'Identifier' else z3.BoolVal(False))
                    elif ex_[0] == 'SIGN':
                        c = terms[ex_[1]]
                        if isinstance(tok.variant, int):
                            cl.append(z3.And(c == ord('+'), tn == 'Plus') if tn == 'Plus' else z3.And(c == ord('-'), tn == 'Minus') if tn == 'Minus' else z3.BoolVal(False))
                        else:
                            cl.append(z3.If(c == ord('+'), tok.variant == C.VI('Token', 'Plus'), tok.variant == C.VI('Token', 'Minus')))
                    elif ex_[0] == 'TOK':
                        cl.append(z3.BoolVal(tn == ex_[1]))
                claim = z3.And(*cl)
            oblige('template %s' % tmpl, chars, o, claim, 'embedded-literal-wrong')
    elif kind == 'word':
        k = spec
        cs = [z3.BitVec('w%d' % i, 32) for i in range(k)]
        cons = [word_char(c) for c in cs]
        is_dec = z3.And(*[is_digit(c) for c in cs])
        is_hex = z3.And(cs[0] == ord('0'), cs[1] == ord('x'), *[is_hexdigit(c) for c in cs[2:]]) if k >= 3 else z3.BoolVal(False)
        is_float = ref_is_float_word(cs)
        is_true = word_exact(cs, 'true')
        is_false = word_exact(cs, 'false')
        infnan = z3.Or(word_is(cs, 'inf'), word_is(cs, 'nan'), word_is(cs, 'infinity'))
        region = infnan if K_INFNAN in open_roles else None
        for o in run_tokenize(C, res, cs, cons):
            tok = single_token(meta, o)
            if tok is None:
                claim = z3.BoolVal(False)
            else:
                tn = tok_name(meta, tok)
                if tn == 'Int':
                    claim = z3.Or(z3.And(is_dec, z3.ZeroExt(64, tok.fields[0].t) == ref_dec_value(cs)),
                                  z3.And(z3.Not(is_dec), is_hex, z3.ZeroExt(64, tok.fields[0].t) == ref_hex_value(cs[2:])))
                elif tn == 'Float':
                    claim = z3.And(z3.Not(is_dec), z3.Not(is_hex), is_float, tok.fields[0].t == parse_uf(cs))
                elif tn == 'Boolean':
                    claim = z3.Or(z3.And(is_true, tok.fields[0]), z3.And(is_false, z3.Not(tok.fields[0])))
                elif tn == 'Identifier':
                    claim = z3.And(z3.Not(is_dec), z3.Not(is_hex), z3.Not(is_float), z3.Not(is_true), z3.Not(is_false), str_payload_eq(tok, cs))
                else:
                    claim = z3.BoolVal(False)
            if region is not None:
                oblige('word of %d free chars [outside known region]' % k, cs, o, claim, 'word-misclassified', extra_pc=[z3.Not(region)])
                pr2 = checklib.Prover(checklib.UnitResult('region'), min(timeout_ms, 30000))
                v2, m2 = pr2.prove('region', o.pc + [region], claim)
                if v2 == 'sat':
                    src = concrete_text(cs, m2)
                    res.sat.append(dict(key=K_INFNAN, source=src, witness=repr(src), got=describe(meta, o, m2), kind=kind))
            else:
                oblige('word of %d free chars' % k, cs, o, claim, 'word-misclassified')
    elif kind == 'concrete':
        text, want = spec
        for o in run_tokenize(C, res, list(text), []):
            got = describe(meta, o)
            res.obligations += 1
            res.paths += 0
            if K_INFNAN in open_roles and text.lower() in ('inf', 'infinity', 'nan'):
                if got != want:
                    res.sat.append(dict(key=K_INFNAN, source=text, witness=repr(text), got=got, kind=kind))
                res.discharged += 1
            elif got == want:
                res.discharged += 1
            else:
                res.sat.append(dict(key='concrete-literal-wrong', source=text, witness=repr(text), got=got, want=want, kind=kind))


def word_exact(cs, w):
    if len(cs) != len(w):
        return z3.BoolVal(False)
    return z3.And(*[c == ord(ch) for c, ch in zip(cs, w)])


# ---------------------------------------------------------------- replay with a Python reference lexer
def ref_lex(s):
    """char-level reference lexer for literal-only inputs: list of (kind, value) or ('ERR', name)"""
    import re
    i = 0
    out = []
    words = []
    n = len(s)
    toks = []
    while i < n:
        ch = s[i]
        if ch == '"':
            j = i + 1
            buf = []
            closed = False
            while j < n:
                if s[j] == '"':
                    closed = True
                    break
                if s[j] == '\\':
                    if j + 1 < n and s[j + 1] in '"\\':
                        buf.append(s[j + 1])
                        j += 2
                        continue
                    return ('ERR', 'IllegalEscapeSequence')
                buf.append(s[j])
                j += 1
            if not closed:
                return ('ERR', 'UnmatchedDoubleQuote')
            toks.append(('String', ''.join(buf)))
            i = j + 1
        elif ch in PUNCT:
            toks.append(('P', ch))
            i += 1
        elif ch.isspace():
            toks.append(('WS', ' '))
            i += 1
        else:
            j = i
            while j < n and s[j] not in PUNCT and s[j] != '"' and not s[j].isspace():
                j += 1
            toks.append(('W', s[i:j]))
            i = j

    def classify(w):
        if re.fullmatch(r'[0-9]+', w):
            v = int(w)
            return ('Int', v) if v < 2 ** 63 else ('Float', float(w))
        if re.fullmatch(r'0x[0-9a-fA-F]+', w) and int(w[2:], 16) < 2 ** 63:
            return ('Int', int(w[2:], 16))
        if re.fullmatch(r'([0-9]+\.?[0-9]*|\.[0-9]+)([eE][0-9]+)?', w):
            return ('Float', float(w))
        if w == 'true':
            return ('Boolean', True)
        if w == 'false':
            return ('Boolean', False)
        return None
    res_ = []
    k = 0
    while k < len(toks):
        t = toks[k]
        if t[0] == 'W':
            c = classify(t[1])
            if c is None and k + 2 < len(toks) and toks[k + 1][0] == 'P' and toks[k + 1][1] in '+-' and toks[k + 2][0] == 'W' \
                    and re.fullmatch(r'([0-9]+\.?[0-9]*|\.[0-9]+)[eE][+-][0-9]+', t[1] + toks[k + 1][1] + toks[k + 2][1]):
                res_.append(('Float', float(t[1] + toks[k + 1][1] + toks[k + 2][1])))
                k += 3
                continue
            res_.append(c if c is not None else ('Identifier', t[1]))
        elif t[0] == 'P':
            res_.append(('P', t[1]))
        elif t[0] == 'String':
            res_.append(t)
        k += 1
    return res_


def replay_ce(ce):
    src = ce['source']
    want = ref_lex(src)
    details = []
    bad = False
    for prof in ('dev', 'release'):
        out = replay.run_cases(replay.case_text('b', 'build', src) + replay.case_text('e', 'eval', src), prof)
        b, e = out['b'], out['e']
        if isinstance(want, tuple) and want[0] == 'ERR':
            r = b.get('build')
            okk = bool(r and r[0] == 'Err' and r[1] == want[1])
            details.append('%s: build -> %s ; reference: %s' % (prof, r or b.get('shape'), want))
        elif len(want) == 1 and want[0][0] in ('Int', 'Float', 'Boolean', 'String', 'Identifier'):
            sh = b.get('shape', '')
            k, v = want[0]
            if k == 'Identifier':
                okk = sh == 'RootNode(VariableIdentifierRead[%s]())' % v.encode().hex()
            elif k == 'Int':
                okk = sh == 'RootNode(Const[I:%d]())' % v
            elif k == 'Float':
                import struct
                okk = sh == 'RootNode(Const[F:%016x]())' % struct.unpack('<Q', struct.pack('<d', v))[0]
            elif k == 'Boolean':
                okk = sh == 'RootNode(Const[B:%d]())' % (1 if v else 0)
            else:
                okk = sh == 'RootNode(Const[S:%s]())' % (v.encode().hex() or '-')
            details.append('%s: tree %s ; reference token %s' % (prof, sh or b.get('build'), want[0]))
        else:
            # multi-token input: compare evaluation of the source with evaluation of the space-separated reference tokens
            def txt(t):
                if t[0] == 'P':
                    return t[1]
                if t[0] == 'String':
                    return '"' + t[1].replace('\\', '\\\\').replace('"', '\\"') + '"'
                if t[0] == 'Float':
                    return repr(t[1])
                if t[0] == 'Boolean':
                    return 'true' if t[1] else 'false'
                return str(t[1])
            canon = ' '.join(txt(t) for t in want)
            o2 = replay.run_cases(replay.case_text('c', 'build', canon), prof)['c']
            okk = b.get('shape') == o2.get('shape') and b.get('build') == o2.get('build')
            details.append('%s: tree %s ; reference rendering `%s` -> %s' % (prof, b.get('shape') or b.get('build'), canon, o2.get('shape') or o2.get('build')))
        bad = bad or not okk
    return ('reproduced' if bad else 'not_reproduced'), details


def main():
    t0 = time.time()
    tier = checklib.env_tier()
    seed = checklib.env_seed()
    timeout_ms = 60000 if tier == 'quick' else 600000
    cvc5_rate = 0.02 if tier == 'quick' else 0.2
    frontend.load(overflow_checks=True)
    units = []
    U = lambda kind, spec: units.append((kind, spec, timeout_ms, cvc5_rate, seed))
    maxs = 3 if tier == 'quick' else 4
    for n in range(0, maxs + 1):
        for shp in itertools.product('pqb', repeat=n):
            U('string', shp)
    for pre in range(0, 2 if tier == 'quick' else 3):
        for post in range(0, 2):
            U('badescape', (pre, post))
    for n in range(0, 3 if tier == 'quick' else 4):
        U('unclosed', n)
    for d in range(1, 21):
        U('dec', d)
    for d in range(1, 18):
        U('hex', d)
    T = lambda tmpl, *expect: U('template', (tmpl, list(expect)))
    T('D.D', ('F', 0, 3)); T('DD.DD', ('F', 0, 5)); T('D.', ('F', 0, 2)); T('.D', ('F', 0, 2)); T('.DD', ('F', 0, 3))
    T('DED', ('F', 0, 3)); T('DEDD', ('F', 0, 4)); T('DESD', ('F', 0, 4)); T('D.DESD', ('F', 0, 6)); T('D.ESDD', ('F', 0, 6)); T('.DESD', ('F', 0, 5))
    T('DD.DDEDD', ('F', 0, 8))
    T('DESDSDESD', ('F', 0, 4), ('SIGN', 4), ('F', 5, 9))
    T('0xHESD', ('I16', 2, 4), ('SIGN', 4), ('I10', 5, 6))          # 0x1e-3 : hex wins over the scientific-notation join
    T('aSDESD', ('ID', 0, 1), ('SIGN', 1), ('F', 2, 6))
    T('DESDSD', ('F', 0, 4), ('SIGN', 4), ('I10', 5, 6))
    T('DSDESD', ('I10', 0, 1), ('SIGN', 1), ('F', 2, 6))
    T('D.DESD*D', ('F', 0, 6), ('TOK', 'Star'), ('I10', 7, 8))
    T('(DESD)', ('TOK', 'LBrace'), ('F', 1, 5), ('TOK', 'RBrace'))
    T('DESSD', ('ID', 0, 2), ('SIGN', 2), ('SIGN', 3), ('I10', 4, 5))  # 1e--3 : no float; identifier `1e`, two signs, int
    T('DES', ('ID', 0, 2), ('SIGN', 2))
    T('ESD', ('ID', 0, 1), ('SIGN', 1), ('I10', 2, 3))
    for k in range(1, (3 if tier == 'quick' else 4) + 1):
        U('word', k)
    for text, want in [('true', '[Boolean:True]'), ('false', '[Boolean:False]'), ('True', "[Identifier:'True']"), ('inf', "[Identifier:'inf']"),
                       ('infinity', "[Identifier:'infinity']"), ('NaN', "[Identifier:'NaN']"), ('nan', "[Identifier:'nan']"), ('Infinity', "[Identifier:'Infinity']"),
                       ('9223372036854775807', '[Int:9223372036854775807]'), ('0x7fffffffffffffff', '[Int:9223372036854775807]'),
                       ('0X10', "[Identifier:'0X10']"), ('1_0', "[Identifier:'1_0']"), ('falsey', "[Identifier:'falsey']")]:
        U('concrete', (text, want))
    random.Random(seed).shuffle(units)
    results = checklib.run_units(checklib.safe_worker(unit), units)
    checklib.finish(PID, results, t0=t0, replay_fn=replay_ce,
                    rule='string literals of 0..%d characters (every character any Unicode scalar, 3 quoting shapes per character), illegal escapes, unclosed strings; decimal literals '
                         'of 1..20 free digits and hex literals of 1..17 free hex digits (exact value / range test against a 128-bit reference); float templates with free digits, exponent '
                         'letter and sign (value = shared uninterpreted parser symbol over exactly the literal text), embeddings between other tokens; words of 1..%d completely free '
                         'word characters classified against a char-level reference' % (maxs, 3 if tier == 'quick' else 4),
                    explanation='bounded symbolic verification of the tokenizer from MIR with symbolic characters; one obligation per path against an independent char-level reference',
                    assumptions=['f64::from_str: accept language modelled as a regular language (validated in setup), value uninterpreted: "nearest double" is std\'s contract',
                                 'i64::from_str / from_str_radix modelled digit-wise with overflow (validated by Kani harness)',
                                 'literal lengths as stated; |t| > 4 outside the claim'],
                    bounds=dict(max_string_chars=maxs, dec_digits=20, hex_digits=17, word_chars=3 if tier == 'quick' else 4, solver_timeout_ms=timeout_ms))


if __name__ == '__main__':
    main()
