"""C07 — whitespace and comments never change meaning.

Unit: tokenize (str_to_partial_tokens, try_skip_comment, char_to_partial_token, partial_tokens_to_tokens) from MIR on renderings of a
token sequence whose gaps are filled with separators: every whitespace character is a free char constrained by is_whitespace,
comment bodies are free chars. Oracle: the token vector (or error) equals that of the canonical rendering (one space per gap)."""
import zlib
import sys, os, time, random, itertools
import z3
sys.path.insert(0, os.path.dirname(os.path.dirname(os.path.abspath(__file__))))
import frontend, checklib, replay
from harness import *
from engine import identical

PID = 'C07'
CVC5_RATE = [0.01]
WORDS = ['a', '12', '1.5', 'true', 'x1', '.5', '_x']
STRINGS = ['"s"', '"3"']
OPS = ['+', '-', '*', '/', '%', '^', '==', '!=', '>', '<', '>=', '<=', '&&', '||', '!', '(', ')', '=', '+=', '-=', '*=', '/=', '%=', '^=',
       '&&=', '||=', ',', ';']
ALPHABET = WORDS + STRINGS + OPS
SAFE = {'(', ')', ',', ';'}
GAP_ITEMS = ['w', 'b', 'l']       # whitespace char, /*body*/, //body\n


def tok_class(t):
    return 'str' if t.startswith('"') else 'word' if (t[0].isalnum() or t[0] in '._') else 'op'


def may_be_empty(t1, t2):
    """a gap may be left empty only where no fusion can occur: next to a parenthesis / separator, next to a string literal (the quotes
    delimit it), or between a word and an operator; two words and two operators (compound operators, comment openers) stay separated"""
    if t1 is None or t2 is None:
        return True
    if t1 in SAFE or t2 in SAFE:
        return True
    k1, k2 = tok_class(t1), tok_class(t2)
    if 'str' in (k1, k2):
        return True
    return k1 != k2


def sci_fuse(t1, t2, t3):
    """`<digits>e` `+|-` `<digits>` written without any separator is the documented three-part scientific literal: that triple fuses"""
    return tok_class(t1) == 'word' and t1[-1] in 'eE' and t2 in ('+', '-') and tok_class(t3) == 'word' and (t3[0].isdigit() or t3[0] == '.')


def gap_kinds(maxitems, allow_empty):
    out = [()] if allow_empty else []
    for n in range(1, maxitems + 1):
        out.extend(itertools.product(GAP_ITEMS, repeat=n))
    return out


class Rendering(object):
    def __init__(self, tokens, gaps, body_len):
        """tokens: list of token texts; gaps: list (len(tokens)+1) of tuples of gap items"""
        self.chars = []
        self.cons = []
        self.free = []
        self.desc = []
        k = [0]

        def fresh(kind):
            v = z3.BitVec('%s%d' % (kind, k[0]), 32)
            k[0] += 1
            self.cons.append(valid_scalar(v))
            self.free.append(v)
            return v

        def lit(s):
            self.chars.extend(mkchar(c) for c in s)

        def gap(items, last):
            for j, it in enumerate(items):
                if it == 'w':
                    v = fresh('w')
                    self.cons.append(is_ws(v))
                    self.chars.append(Int(v, False))
                    self.desc.append('␣')
                elif it == 'b':
                    lit('/*')
                    body = [fresh('b') for _ in range(body_len)]
                    # the body must not contain the terminator, nor end in a `*` that would pair with... (only `*/` terminates)
                    for x, y in zip(body, body[1:]):
                        self.cons.append(z3.Not(z3.And(x == ord('*'), y == ord('/'))))
                    if body:
                        # `/*` + body + `*/`: a body ending in `*` still terminates at the first `*/`; a body "/" gives `/*/*/`, also one comment
                        pass
                    self.chars.extend(Int(b, False) for b in body)
                    lit('*/')
                    self.desc.append('/*%s*/' % ('?' * body_len))
                else:
                    lit('//')
                    body = [fresh('l') for _ in range(body_len)]
                    for x in body:
                        self.cons.append(x != ord('\n'))
                    self.chars.extend(Int(b, False) for b in body)
                    if not (last and j == len(items) - 1 and False):
                        lit('\n')
                    self.desc.append('//%s\\n' % ('?' * body_len))

        for i, t in enumerate(tokens):
            if i > 0 and tokens[i - 1].endswith('/') and gaps[i] and gaps[i][0] != 'w':
                # `/` directly followed by a comment opener is itself a comment opener (`//`): such a rendering fuses the token with
                # the separator and is outside the claim; start the gap with a whitespace character instead
                gaps = list(gaps)
                gaps[i] = ('w',) + tuple(gaps[i])
            gap(gaps[i], False)
            lit(t)
            self.desc.append(t)
        last = gaps[len(tokens)]
        if tokens and tokens[-1].endswith('/') and last and last[0] != 'w':
            last = ('w',) + tuple(last)
        gap(last, True)

    def text(self):
        return ''.join(self.desc)

    def concrete(self, model):
        out = []
        for c in self.chars:
            t = z3.simplify(model.eval(c.t, model_completion=True))
            out.append(chr(t.as_long()))
        return ''.join(out)


_C = {}


def ctx():
    if 'c' not in _C:
        _C['c'] = Ctx(frontend.load(overflow_checks=True), overflow_checks=True)
        _C['canon'] = {}
    return _C['c']


def canon_result(C, tokens):
    key = tuple(tokens)
    cache = _C['canon']
    if key not in cache:
        s = ' '.join(tokens)
        ex, outs = C.run('tokenize', lambda st: [ref_to(st, sstr(s))])
        assert len(outs) == 1, 'canonical rendering must be deterministic'
        cache[key] = outs[0]
    return cache[key]


def same_result(meta, a, b):
    """concrete comparison of two tokenize outcomes (token vectors carry no free variables)"""
    if a.kind != b.kind:
        return False
    if a.kind == 'panic':
        return True
    return identical(a.value, b.value)


def unit(u, res):
    jobs, timeout_ms, seed = u
    C = ctx()
    pr = checklib.Prover(res, timeout_ms, CVC5_RATE[0], random.Random(zlib.crc32(repr(u).encode()) ^ checklib.env_seed()))
    for tokens, gaps, body_len in jobs:
        if gaps == 'UNTERMINATED':
            unterminated(C, pr, res, tokens, body_len)
            continue
        R = Rendering(tokens, gaps, body_len)
        want = canon_result(C, tokens)
        t0 = time.time()
        try:
            ex, outs = C.run('tokenize', lambda st: [ref_to(st, SStr(R.chars))], pc=R.cons)
        except Unsupported as x:
            res.inconclusive.append('%s: unsupported: %s @ %s' % (R.text(), x, getattr(x, 'where', None)))
            continue
        res.exec_s += time.time() - t0
        res.feas_queries += ex.nq
        res.bodies |= ex.bodies_used
        res.models |= ex.models_used
        res.paths += len(outs)
        for i, o in enumerate(outs):
            if R.free:
                res.nontrivial_paths += 1
            res.obligations += 1
            if same_result(C.meta, o, want):
                res.discharged += 1
                continue
            feas, model = pr.feasible(o.pc)
            if feas is None:
                res.unknown.append(R.text())
            elif not feas:
                res.discharged += 1
            else:
                src = R.concrete(model)
                res.sat.append(dict(key=classify(tokens, gaps), source=src, canonical=' '.join(tokens), witness=repr(src),
                                    got=show_tokens(C.meta, o), want=show_tokens(C.meta, want)))
        if len(res.samples) < 1 and R.free:
            res.samples.append(dict(rendering=R.text(), canonical=' '.join(tokens), free_chars=len(R.free), paths=len(outs),
                                    tokens=show_tokens(C.meta, want)))


def unterminated(C, pr, res, tokens, n):
    """tokens, then `/*` followed by n free chars containing no `*/`: must be an error (the unmatched-comment error)"""
    chars = [mkchar(ch) for ch in ' '.join(tokens) + (' ' if tokens else '') + '/*']
    cons = []
    free = []
    for i in range(n):
        v = z3.BitVec('u%d' % i, 32)
        cons.append(valid_scalar(v))
        free.append(v)
        chars.append(Int(v, False))
    for x, y in zip(free, free[1:]):
        cons.append(z3.Not(z3.And(x == ord('*'), y == ord('/'))))
    name = '%s /*%s (unterminated)' % (' '.join(tokens), '?' * n)
    try:
        ex, outs = C.run('tokenize', lambda st: [ref_to(st, SStr(chars))], pc=cons)
    except Unsupported as x:
        res.inconclusive.append('%s: unsupported: %s' % (name, x))
        return
    res.feas_queries += ex.nq
    res.bodies |= ex.bodies_used
    res.models |= ex.models_used
    res.paths += len(outs)
    for o in outs:
        res.nontrivial_paths += 1 if free else 0
        res.obligations += 1
        if o.kind == 'return' and o.value.variant == 1 and error_name(C.meta, o.value.fields[0]) == 'CustomMessage':
            res.discharged += 1
            continue
        feas, model = pr.feasible(o.pc)
        if feas is None:
            res.unknown.append(name)
        elif not feas:
            res.discharged += 1
        else:
            src = ''.join(chr(z3.simplify(model.eval(ch.t, model_completion=True)).as_long()) for ch in chars)
            res.sat.append(dict(key='unterminated-block-comment-accepted', source=src, canonical=src, witness=repr(src), got=show_tokens(C.meta, o),
                                want='Err(CustomMessage: unmatched inline comment)', unterminated=True))


def show_tokens(meta, o):
    if o.kind == 'panic':
        return 'panic: %s' % o.value
    r = o.value
    if r.variant == 1:
        return 'Err(%s)' % error_name(meta, r.fields[0])
    out = []
    for t in r.fields[0].items:
        n = meta.enums['Token'][t.variant][0] if isinstance(t.variant, int) else '?'
        if t.fields:
            f = t.fields[0]
            n += ':' + (f.concrete() or repr(f) if isinstance(f, SStr) else repr(f))
        out.append(n)
    return '[' + ', '.join(out) + ']'


def classify(tokens, gaps):
    """role: which separator kind sits in a gap between two tokens that would fuse without it"""
    for i in range(1, len(tokens)):
        g = gaps[i]
        if g and 'w' not in g and not may_be_empty(tokens[i - 1], tokens[i]):
            return 'comment-only-gap-between-fusable-tokens'
    return 'other-separator-assignment'


def replay_ce(ce):
    if ce.get('unterminated'):
        details = []
        bad = False
        for prof in ('dev', 'release'):
            a = replay.run_cases(replay.case_text('a', 'build', ce['source']), prof)['a']
            r = a.get('build')
            okk = bool(r and r[0] == 'Err' and r[1] == 'CustomMessage')
            details.append('%s: %s' % (prof, r or a.get('shape')))
            bad = bad or not okk
        return ('reproduced' if bad else 'not_reproduced'), details
    text = replay.case_text('a', 'build', ce['source']) + replay.case_text('b', 'build', ce['canonical'])
    details = []
    bad = False
    for prof in ('dev', 'release'):
        out = replay.run_cases(text, prof)
        a, b = out['a'], out['b']
        ra = a.get('shape') or str(a.get('build') or a.get('panic'))
        rb = b.get('shape') or str(b.get('build') or b.get('panic'))
        details.append('%s: rendering -> %s ; canonical -> %s' % (prof, ra, rb))
        bad = bad or (ra != rb)
    if not bad:
        # equal trees can hide different token vectors only if the tree builder maps them to the same tree: then the property holds
        return 'benign', details
    return 'reproduced', details


def jobs_for(tier, seed):
    rng = random.Random(seed)
    jobs = []
    maxitems = 2
    # all pairs over the full alphabet: the tokenizer's decision at a gap depends on the adjacent characters
    for t1 in ALPHABET:
        for t2 in ALPHABET:
            kinds = gap_kinds(maxitems, may_be_empty(t1, t2))
            if tier == 'quick':
                kinds = [k for k in kinds if len(k) <= 1] + rng.sample([k for k in kinds if len(k) == 2], 2)
            for g in kinds:
                for bl in ((1,) if tier == 'quick' else (0, 1, 2)):
                    if not any(x in ('b', 'l') for x in g) and bl != 1:
                        continue
                    jobs.append(([t1, t2], [(), g, ()], bl))
    # leading / trailing gaps, single tokens
    for t in ALPHABET:
        for g in gap_kinds(2, True):
            jobs.append(([t], [g, ()], 1))
            jobs.append(([t], [(), g], 1))
    # triples over a reduced alphabet (three-token scientific notation join, compound assignment operators)
    red = ['a', '1e', '3', '"s"', '"3"', '+', '-', '/', '*', '=', '&&', '(', ')'] if tier == 'quick' else \
        ['a', '1e', '2E', '3', '1.5', '.5', '"s"', '"3"', '+', '-', '/', '*', '=', '&&', '||', '!', '<', '(', ')', ',']
    for t1 in red:
        for t2 in red:
            for t3 in red:
                ks1 = [k for k in gap_kinds(1, may_be_empty(t1, t2))]
                ks2 = [k for k in gap_kinds(1, may_be_empty(t2, t3))]
                combos = [(a, b) for a in ks1 for b in ks2 if not (sci_fuse(t1, t2, t3) and a == () and b == ())]
                if () in ks1 and () in ks2 and ((), ()) in combos and tier == 'quick':
                    jobs.append(([t1, t2, t3], [(), (), (), ()], 1))      # the fully juxtaposed rendering is always included
                if tier == 'quick':
                    combos = rng.sample(combos, min(3, len(combos)))
                for a, b in combos:
                    jobs.append(([t1, t2, t3], [(), a, b, ()], 1))
    if tier != 'quick':
        toks4 = ['a', '1', '+', '==', '(', ')', '"s"', '/']
        for seq in itertools.product(toks4, repeat=4):
            gaps = [()]
            for x, y in zip(seq, seq[1:]):
                ks = gap_kinds(1, may_be_empty(x, y))
                gaps.append(rng.choice(ks))
            gaps.append(())
            jobs.append((list(seq), gaps, 1))
    # longer comment bodies (3..4 free characters) between a few representative token pairs
    for t1, t2 in [('a', 'b'), ('1', '2'), ('=', '='), ('a', '+'), (')', '('), ('"s"', 'a')]:
        for g in [('b',), ('l',), ('w', 'b'), ('b', 'w')]:
            for bl in ((3,) if tier == 'quick' else (3, 4)):
                jobs.append(([t1, t2], [(), g, ()], bl))
    # an unterminated block comment must be an error
    for toks in ([], ['a'], ['1', '+'], ['"s"'], ['(', 'a', ')']):
        for n in range(0, 3 if tier == 'quick' else 4):
            jobs.append((toks, 'UNTERMINATED', n))
    return jobs


def unit_unterminated(u, res):
    pass


def main():
    t0 = time.time()
    tier = checklib.env_tier()
    seed = checklib.env_seed()
    CVC5_RATE[0] = 0.01 if tier == 'quick' else 0.1
    timeout_ms = 60000 if tier == 'quick' else 600000
    frontend.load(overflow_checks=True)
    jobs = jobs_for(tier, seed)
    random.Random(seed).shuffle(jobs)
    chunk = 40
    units = [(jobs[i:i + chunk], timeout_ms, seed) for i in range(0, len(jobs), chunk)]
    results = checklib.run_units(checklib.safe_worker(unit), units)
    checklib.finish(PID, results, t0=t0, replay_fn=replay_ce,
                    rule='%d renderings: all ordered pairs over a %d-token alphabet (identifier, int, float, bool, string, every operator/bracket/separator) x gap fillings of '
                         '<= 2 items from {whitespace char, /*body*/, //body\\n} (empty only next to brackets/separators), single tokens with leading/trailing gaps, triples over a '
                         'reduced alphabet; every whitespace char is a solver variable constrained by is_whitespace (all 25 code points at once), comment bodies are free chars; '
                         'an obligation is one path: its token vector / error equals that of the canonical rendering, or its path condition is unsat'
                         % (len(jobs), len(ALPHABET)),
                    explanation='bounded symbolic verification of the tokenizer from MIR: separator characters are symbolic; every path must reproduce the canonical token vector',
                    assumptions=['char::is_whitespace is modelled by the Unicode White_Space ranges (validated exhaustively in setup)',
                                 'equal token vectors imply equal trees (the tree builder is a function of the token vector; not re-executed here)',
                                 'a gap is left empty only next to ( ) , ; (conservative reading of "where fusion would occur")',
                                 'comment bodies up to 2 characters everywhere, 3 (thorough 4) between representative token pairs; gaps up to 2 items'],
                    bounds=dict(alphabet=ALPHABET, max_gap_items=2, renderings=len(jobs), solver_timeout_ms=timeout_ms))


if __name__ == '__main__':
    main()
