"""C11 — read-only evaluation equals mutable evaluation and never mutates.

Operator level: for every non-assignment operator variant, Operator::eval(&c) and Operator::eval_mut(&mut c) are executed from MIR on the
same symbolic arguments and the same HashMapContext pre-state; results must agree on every pair of compatible paths and the mutable run
must leave the context unchanged; for the 9 assignment variants Operator::eval must return ContextNotMutable for every argument vector.
Tree level: the inductive step of C08 on both node evaluators (same event structure; the read-only evaluator applies Operator::eval)."""
import zlib
import sys, os, time, random, itertools, re
import z3
sys.path.insert(0, os.path.dirname(os.path.dirname(os.path.abspath(__file__))))
import frontend, checklib, replay, models
from harness import *
from shapes import *
from ctxlib import *
import c08
from c12 import equal_term

PID = 'C11'
CVC5_RATE = [0.01]
NON_ASSIGN = ['RootNode', 'Add', 'Sub', 'Neg', 'Mul', 'Div', 'Mod', 'Exp', 'Eq', 'Neq', 'Gt', 'Lt', 'Geq', 'Leq', 'And', 'Or', 'Not', 'Tuple', 'Chain',
              'Const', 'VariableIdentifierWrite', 'VariableIdentifierRead', 'FunctionIdentifier']
ASSIGN = ['Assign', 'AddAssign', 'SubAssign', 'MulAssign', 'DivAssign', 'ModAssign', 'ExpAssign', 'AndAssign', 'OrAssign']
_C = {}


def ctx():
    if 'c' not in _C:
        _C['c'] = Ctx(frontend.load(overflow_checks=True), overflow_checks=True)
    return _C['c']


def make_op(C, opname, ident):
    if opname == 'Const':
        return C.operator('Const', C.v_int(z3.BitVec('constval', 64)))
    if opname in ('VariableIdentifierWrite', 'VariableIdentifierRead', 'FunctionIdentifier'):
        return C.operator(opname, sstr(ident))
    return C.operator(opname)


def run_op(C, res, opname, ident, shapes, mutable, ctxkind, fn_behaviour='identity'):
    cons = []
    vals = []
    for i, sh in enumerate(shapes):
        v, s = make_value(C, sh, 'a%d' % i, cons)
        vals.append(v)
    xv, xs = make_value(C, 'I', 'ctx_x', cons)
    sv, ss = make_value(C, 'S1', 'ctx_s', cons)
    flag = z3.Bool('ctx_disabled')
    holder = {}
    body = C.method('Operator', 'eval_mut' if mutable else 'eval')

    def args(st):
        if ctxkind == 'hashmap':
            cv = build_context(C, st, variables=[('x', copy_value(xv)), ('s', copy_value(sv))], functions=[('f', fn_behaviour)], disabled=flag)
        else:
            cv = C.empty_context(with_builtins=(ctxkind == 'emptyb'))
        holder['c'] = ref_to(st, cv, mut=mutable)
        return [ref_to(st, make_op(C, opname, ident)), ref_to(st, VecV([copy_value(v) for v in vals])), holder['c']]
    t0 = time.time()
    ex, outs = C.run(body, args, pc=cons)
    res.exec_s += time.time() - t0
    res.feas_queries += ex.nq
    res.bodies |= ex.bodies_used
    res.models |= ex.models_used
    res.paths += len(outs)
    return cons, outs, holder, dict(x=xs, s=ss), flag


def unit(u, res):
    kind = u[0]
    if kind == 'tree':
        return c08.unit(u[1], res)
    C = ctx()
    if kind == 'equiv':
        _, opname, ident, shapes, timeout_ms, seed = u
        pr = checklib.Prover(res, timeout_ms, CVC5_RATE[0], random.Random(zlib.crc32(repr(u).encode()) ^ checklib.env_seed()))
        cons, ro, h1, pre, flag = run_op(C, res, opname, ident, shapes, False, 'hashmap')
        cons2, mu, h2, pre2, flag2 = run_op(C, res, opname, ident, shapes, True, 'hashmap')
        name = '%s[%s]%s' % (opname, ident, shapes)
        for q in mu:
            res.nontrivial_paths += 1
            # (1) the mutable run leaves the context unchanged
            cv = None
            for c in q.state.anchors:
                if c.id == h2['c'].cell.id:
                    cv = c.val
            f = ctx_fields(C, cv)
            unchanged = z3.And(map_equal_terms(C, f['variables'], pre2), z3.BoolVal([k.concrete() for k in f['functions'].keys] == ['f']),
                               f['without_builtin_functions'] == flag2)
            verdict, model = pr.prove(name + ' context unchanged', q.pc, unchanged)
            if verdict == 'sat':
                res.sat.append(dict(key='mutable evaluation of a non-assignment changes the context', op=opname, witness='%s mutates the context' % name))
            # (2) results agree with every compatible read-only path
            for p in ro:
                both = q.pc + p.pc[len(cons):]
                if p.kind != q.kind:
                    claim = z3.BoolVal(False)
                elif p.kind == 'panic':
                    claim = z3.BoolVal(True)
                elif len(p.log) != len(q.log):
                    claim = z3.BoolVal(False)
                else:
                    claim = equal_term(p.value, q.value)
                verdict, model = pr.prove(name + ' eval == eval_mut', both, claim)
                if verdict == 'sat':
                    res.sat.append(dict(key='read-only and mutable operator evaluation differ', op=opname,
                                        witness='%s: eval -> %s, eval_mut -> %s' % (name, render_result(C.meta, p.value, model) if p.kind == 'return' else 'panic',
                                                                                     render_result(C.meta, q.value, model) if q.kind == 'return' else 'panic')))
        if len(res.samples) < 1:
            res.samples.append(dict(unit=name, read_only_paths=len(ro), mutable_paths=len(mu)))
    elif kind == 'assign_ro':
        _, opname, shapes, ctxkind, timeout_ms, seed = u
        pr = checklib.Prover(res, timeout_ms, CVC5_RATE[0], random.Random(zlib.crc32(repr(u).encode()) ^ checklib.env_seed()))
        cons, ro, h1, pre, flag = run_op(C, res, opname, 'x', shapes, False, ctxkind)
        for p in ro:
            res.nontrivial_paths += 1
            claim = z3.BoolVal(p.kind == 'return' and p.value.variant == 1 and error_name(C.meta, p.value.fields[0]) == 'ContextNotMutable')
            verdict, model = pr.prove('%s%s read-only' % (opname, shapes), p.pc, claim)
            if verdict == 'sat':
                res.sat.append(dict(key='assignment operator does not fail with ContextNotMutable under a shared context', op=opname,
                                    witness='Operator::eval(%s, %s) in %s context -> %s' % (opname, shapes, ctxkind, render_result(C.meta, p.value, model) if p.kind == 'return' else 'panic')))
    elif kind == 'assign_userctx':
        # Operator::eval_mut of an assignment operator on a user-defined context without variable storage (its set_value is the trait default,
        # which the default_set_value unit shows to fail with ContextNotMutable always: assumed here, guaranteed there; its get_value is a havoc
        # stub that may serve exactly the value being written): no path may report success, and a path that reaches the write must write
        _, opname, sh, timeout_ms, seed = u
        pr = checklib.Prover(res, timeout_ms)
        body = C.method('Operator', 'eval_mut')
        cons = []
        v, s = make_value(C, sh, 'v', cons)
        w, ws = make_value(C, sh, 'w', cons)
        ex = C.new_exec()

        def uctx_stub(ex_, st, c, args):
            m = c.split('::')[-1]
            st.log.append(('ctxcall', m))
            if m == 'get_value':
                t = ex_.branch(st, [(z3.Bool('uc_has'), 'some'), (z3.Not(z3.Bool('uc_has')), 'none')])
                return some(Ref(st.new_cell(copy_value(w)), [])) if t == 'some' else none()
            if m == 'are_builtin_functions_disabled':
                return z3.Bool('uc_disabled')
            if m == 'set_value':
                return err(Adt('EvalexprError', C.VI('EvalexprError', 'ContextNotMutable'), []))
            raise Unsupported('user context asked %s' % c)
        ex.overrides.append((re.compile(r'<(Self|C|.*UserContext.*) as (context::)?(Context|ContextWithMutableVariables)>::\w+'), uctx_stub))
        ex, outs = C.run(body, lambda st: [ref_to(st, make_op(C, opname, '-')), ref_to(st, VecV([C.v_str('x'), copy_value(v)])),
                                           ref_to(st, Adt('UserContext', 0, [mkunit()]), mut=True)], pc=cons, ex=ex)
        res.paths += len(outs)
        res.bodies |= ex.bodies_used
        for p in outs:
            res.nontrivial_paths += 1
            claim = z3.BoolVal(p.kind == 'return' and p.value.variant == 1)
            verdict, model = pr.prove('%s on a storage-less user context' % opname, p.pc, claim)
            if verdict == 'sat':
                res.sat.append(dict(key='assignment through a context without variable storage reports success', default_set_value=True,
                                    witness='Operator::eval_mut(%s, ["x", %s]) on a storage-less user context whose get_value(x) = %s -> %s'
                                            % (opname, render_value(C.meta, v, model), render_value(C.meta, w, model) if any(e == ('ctxcall', 'get_value') for e in p.log) else 'not asked',
                                               render_result(C.meta, p.value, model) if p.kind == 'return' else 'panic')))
        if len(res.samples) < 1:
            res.samples.append(dict(unit='%s[%s] on a storage-less user context' % (opname, sh), paths=len(outs)))
    elif kind == 'default_set_value':
        pr = checklib.Prover(res, u[-2])
        body = C.p.trait_default('ContextWithMutableVariables', 'set_value')
        if body is None:
            raise Unsupported('default set_value body not found')
        cons = []
        v, s = make_value(C, u[1], 'v', cons)
        # Self = a user-defined context without variable storage that may serve read-only values: every Context method it is asked is a
        # havoc stub (get_value: None or Some(any value of the written value's shape, possibly equal to it))
        w, ws = make_value(C, u[1], 'w', cons)
        ex = C.new_exec()

        def ctx_stub(ex_, st, c, args):
            m = c.split('::')[-1]
            st.log.append(('ctxcall', m))
            if m == 'get_value':
                t = ex_.branch(st, [(z3.Bool('uc_has'), 'some'), (z3.Not(z3.Bool('uc_has')), 'none')])
                return some(Ref(st.new_cell(copy_value(w)), [])) if t == 'some' else none()
            if m == 'are_builtin_functions_disabled':
                return z3.Bool('uc_disabled')
            raise Unsupported('user context asked %s' % c)
        ex.overrides.append((re.compile(r'<(Self|.*UserContext.*) as (context::)?Context>::\w+'), ctx_stub))
        ex, outs = C.run(body, lambda st: [ref_to(st, Adt('UserContext', 0, [mkunit()]), mut=True), sstr('x'), v], pc=cons, ex=ex)
        res.paths += len(outs)
        res.bodies |= ex.bodies_used
        for p in outs:
            res.nontrivial_paths += 1
            claim = z3.BoolVal(p.kind == 'return' and p.value.variant == 1 and error_name(C.meta, p.value.fields[0]) == 'ContextNotMutable')
            verdict, model = pr.prove('default set_value', p.pc, claim)
            if verdict == 'sat':
                res.sat.append(dict(key='default set_value accepts an assignment', default_set_value=True,
                                    witness='ContextWithMutableVariables::set_value default body on a storage-less context whose get_value(x) = %s, writing %s -> %s'
                                            % (render_value(C.meta, w, model) if any(e == ('ctxcall', 'get_value') for e in p.log) else 'not asked', render_value(C.meta, v, model),
                                               render_result(C.meta, p.value, model) if p.kind == 'return' else 'panic')))


def replay_ce(ce):
    if ('operator' in ce and 'children' in ce) or ce.get('walk'):
        return c08.replay_ce(ce)
    if ce.get('default_set_value'):
        # native: a user-defined storage-less context (runner ServeCtx) that serves value s for every identifier; every write must fail with
        # ContextNotMutable, through the trait method and through expressions, and the read-only evaluator must agree
        vals = [('Int', 3), ('Float', 1.5), ('Boolean', True), ('String', 'q'), ('Tuple', [('Int', 1)]), ('Empty',)]
        lits = ['3', '1.5', 'true', '"q"', '(1,)', '()']
        details = []
        bad = False
        for prof in ('dev', 'release'):
            text = ''
            n = 0
            cases = []
            for served in [None] + vals:
                vs = [('x', served)] if served is not None else []
                for i, w in enumerate(vals):
                    text += replay.case_text('s%d' % n, 'serve_set_value', '', vars=vs, ops=['arg %s' % replay.enc_value(w)])
                    cases.append(('s%d' % n, 'set_value(x, %s) with get_value = %s' % (w, served)))
                    n += 1
                for p_ in ['x = %s' % l for l in lits] + ['x += 0', 'x *= 1', 'x += ""', 'x &&= true', 'x ||= false']:
                    text += replay.case_text('s%d' % n, 'serve_eval_mut', p_, vars=vs)
                    cases.append(('s%d' % n, '`%s` (mutable) with get_value = %s' % (p_, served)))
                    n += 1
            out = replay.run_cases(text, prof)
            for cid, what in cases:
                r = out[cid].get('result')
                if r and r[0] == 'Ok':
                    bad = True
                    details.append('%s: %s -> %s' % (prof, what, r))
        return ('reproduced' if bad else 'not_reproduced'), details[:6] or ['every write to the storage-less context fails natively']
    # native comparison of the two evaluators on probe programs
    progs = ['1 + 2', 'x * 2', 'f(x)', 's + "a"', 'x == 1', 'x = 2', 'x += 1', 'y = 1', '(1, x)', '1; x', 'min(x, 2)', 'missing', '1 / 0', 'x = 1 / 0', 'x = missing',
             'false && missing', 'true || (1 / 0 > 1)', 'x != 1 && 2 / (x - 1) > 1', 'typeof(x)', 'x &&= true', '-x', '!true',
             # an assignment operator with a missing operand is still an assignment operator that is reached
             'x =', 'x +=', '(x =)', 'x + 1; x =', 's ||=']
    details = []
    bad = False
    for prof in ('dev', 'release'):
        text = ''
        for i, p in enumerate(progs):
            cx = dict(vars=[('x', ('Int', 1)), ('s', ('String', 'q'))], funcs=[('f', 'log')])
            text += replay.case_text('r%d' % i, 'eval_with_context', p, **cx) + replay.case_text('m%d' % i, 'eval_with_context_mut', p, **cx)
        out = replay.run_cases(text, prof)
        for i, p in enumerate(progs):
            r, m = out['r%d' % i], out['m%d' % i]
            rr, mr = r.get('result'), m.get('result')
            has_assign = (any(t in p for t in (' = ', '+=', '&&=', '||=')) or p.rstrip(')').endswith('=')) and '==' not in p
            if r['vars'] != {'x': ('Int', 1), 's': ('String', 'q')}:
                bad = True
                details.append('%s: `%s` read-only evaluation changed the context: %s' % (prof, p, r['vars']))
            if not has_assign:
                if rr != mr or m['vars'] != r['vars'] or r.get('log') != m.get('log'):
                    bad = True
                    details.append('%s: `%s`: read-only %s vs mutable %s' % (prof, p, rr, mr))
            else:
                # the read-only run fails with ContextNotMutable unless an earlier error is reported first
                rhs_fails = p in ('x = 1 / 0', 'x = missing')
                if rhs_fails:
                    okk = rr == mr
                else:
                    okk = bool(rr and rr[0] == 'Err' and rr[1] == 'ContextNotMutable')
                if not okk:
                    bad = True
                    details.append('%s: `%s`: read-only %s (mutable %s)' % (prof, p, rr, mr))
    return ('reproduced' if bad else 'not_reproduced'), details[:6] or ['probe programs agree natively']


def main():
    t0 = time.time()
    tier = checklib.env_tier()
    seed = checklib.env_seed()
    CVC5_RATE[0] = 0.002 if tier == 'quick' else 0.02
    timeout_ms = 60000 if tier == 'quick' else 600000
    frontend.load(overflow_checks=True)
    eshapes = ['I', 'F', 'B', 'S1', 'T1', 'E']
    arglists = [[]] + [[a] for a in eshapes] + [[a, b] for a in eshapes for b in eshapes]
    a3 = [[a, b, c] for a in eshapes for b in eshapes for c in eshapes]
    random.Random(seed).shuffle(a3)
    arglists += a3[:(10 if tier == 'quick' else 216)]
    units = []
    for op in NON_ASSIGN:
        idents = ['x', 'zz'] if op in ('VariableIdentifierWrite', 'VariableIdentifierRead') else ['f', 'min', 'zz'] if op == 'FunctionIdentifier' else ['-']
        for ident in idents:
            for shapes in arglists:
                units.append(('equiv', op, ident, shapes, timeout_ms, seed))
    for op in ASSIGN:
        for shapes in arglists:
            for ck in ('hashmap', 'empty', 'emptyb'):
                units.append(('assign_ro', op, shapes, ck, timeout_ms, seed))
    for sh in eshapes:
        units.append(('default_set_value', sh, timeout_ms, seed))
        for op in ASSIGN:
            units.append(('assign_userctx', op, sh, timeout_ms, seed))
    tunits, maxk, _ = c08.make_units(tier, seed, PID)
    units += [('tree', t) for t in tunits]
    random.Random(seed).shuffle(units)
    results = checklib.run_units(checklib.safe_worker(unit), units)
    checklib.finish(PID, results, t0=t0, replay_fn=replay_ce,
                    rule='operator level: %d non-assignment operator variants x argument vectors of length 0..3 (shapes Int/Float/Boolean/String/Tuple/Empty, payloads solver variables) on a '
                         'HashMapContext with symbolic variables, a user function and a symbolic builtin flag: Operator::eval vs Operator::eval_mut pairwise on compatible paths + context '
                         'unchanged; the 9 assignment variants under Operator::eval in 3 context kinds; the default ContextWithMutableVariables::set_value; tree level: the C08 inductive step '
                         'on both node evaluators (k <= %d children)' % (len(NON_ASSIGN), maxk),
                    explanation='bounded symbolic verification (operator level) + modular step (tree level, no depth bound): the read-only evaluator differs from the mutable one only in calling '
                                'Operator::eval, which equals eval_mut on non-assignments and returns ContextNotMutable on assignments after all children were evaluated',
                    assumptions=['&C cannot be mutated through (type system); user functions are pure w.r.t. the context', 'argument vectors up to length 3'],
                    bounds=dict(non_assignment_operators=len(NON_ASSIGN), assignment_operators=len(ASSIGN), argument_vectors=len(arglists), solver_timeout_ms=timeout_ms))


if __name__ == '__main__':
    main()
