"""C02 — precedence and associativity alone determine the operator tree.

Unit: tokens_to_operator_tree (+ insert_back_prioritized, operator tables, token predicates) on every well-formed
token skeleton up to a length bound; every operator position is a solver variable (14 binary / 2 prefix / 9 assignment).
Oracle: the returned tree must (a) yield the token sequence in order (parentheses = wrapper nodes) and (b) be locally
consistent with the documented precedence table -- together these characterise the unique correct tree."""
import sys, os, time, random
import z3
sys.path.insert(0, os.path.dirname(os.path.dirname(os.path.abspath(__file__))))
import frontend, checklib, replay
from harness import *
from skel import *

PID = 'C02'
TRACE_RATE = [0.05]
OPERANDS = 'abcdexyzuvw'
FUNCS = 'fghkmn'


# ---------------------------------------------------------------- skeleton generator (independent grammar)
def gen_P(n, depth, arg=False):
    out = []
    if n == 1:
        out.append(['OPD'])
    if n >= 2:
        for p in gen_P(n - 1, depth, arg=True):
            out.append(['FUN'] + p)
    if depth > 0 and n >= 3:
        for e in gen_E(n - 2, depth - 1):
            out.append(['('] + e + [')'])
    if arg and n == 2:
        out.append(['(', ')'])
    if arg and depth > 0 and n >= 5:
        # two-argument call: ( E , E )
        for i in range(1, n - 3):
            for e1 in gen_E(i, depth - 1):
                for e2 in gen_E(n - 3 - i, depth - 1):
                    out.append(['('] + e1 + ['tok:Comma'] + e2 + [')'])
    return out


_memo = {}


def gen_U(n, depth):
    out = []
    for k in range(0, min(2, n - 1) + 1):
        for p in gen_P(n - k, depth):
            out.append(['PRE'] * k + p)
    return out


def gen_E(n, depth):
    key = (n, depth)
    if key in _memo:
        return _memo[key]
    out = list(gen_U(n, depth))
    for i in range(1, n - 1):
        for u in gen_U(i, depth):
            for e in gen_E(n - i - 1, depth):
                out.append(u + ['BIN'] + e)
    _memo[key] = out
    return out


def gen_S(n, depth):
    """statements: expression, or identifier ASG ... chains in head position"""
    out = list(gen_E(n, depth))
    if n >= 3:
        for e in gen_E(n - 2, depth):
            out.append(['WRT', 'ASG'] + e)
    if n >= 5:
        for e in gen_E(n - 4, depth):
            out.append(['WRT', 'ASG', 'WRT', 'ASG'] + e)
    return out


def name_operands(sk, literals=False):
    spec = []
    io = 0
    jf = 0
    for k in sk:
        if k == 'OPD':
            spec.append('int' if literals else 'id:' + OPERANDS[io % len(OPERANDS)])
            io += 1
        elif k == 'WRT':
            spec.append('id:' + OPERANDS[io % len(OPERANDS)])
            io += 1
        elif k == 'FUN':
            spec.append('id:' + FUNCS[jf % len(FUNCS)])
            jf += 1
        else:
            spec.append(k)
    return spec


def skip_primary(spec, i):
    """index just after the primary starting at i"""
    k = spec[i]
    if k == '(':
        d = 0
        while True:
            if spec[i] == '(':
                d += 1
            elif spec[i] == ')':
                d -= 1
                if d == 0:
                    return i + 1
            i += 1
    if k.startswith('id:') and k[3] in FUNCS:
        return skip_primary(spec, i + 1)
    return i + 1


def exclusions(S):
    """assumptions that carve out the two unclaimed forms"""
    spec = S.spec
    cons = []
    VI = S.C.VI
    for i, k in enumerate(spec):
        if k == 'BIN' and i + 1 < len(spec) and spec[i + 1] == 'PRE':
            j = i + 1
            while spec[j] == 'PRE':
                j += 1
            e = skip_primary(spec, j)
            if e < len(spec) and spec[e] == 'BIN':
                a = S.slot_at(i)[1]
                b = S.slot_at(e)[1]
                cons.append(z3.Not(z3.And(a == VI('Token', 'Hat'), b == VI('Token', 'Hat'))))
    return cons


# ---------------------------------------------------------------- oracle
ASSIGN_OPS = list(TOK2OP_ASG.values())
BINARY_OPS = list(TOK2OP_BIN.values())


class TreeCheck(object):
    def __init__(self, S):
        self.S = S
        self.C = S.C
        self.items = []      # yield: ('(',) (')',) ('op', node) ('leaf', node)
        self.clauses = []
        self.bad = None

    def kind(self, n):
        C = self.C
        opn = op_concrete(C, n)
        nk = len(children(n))
        if opn == 'RootNode':
            return 'paren'
        if opn in ('Const', 'VariableIdentifierRead', 'VariableIdentifierWrite'):
            return 'leaf'
        if opn == 'FunctionIdentifier':
            return 'func'
        if opn in ('Tuple', 'Chain'):
            return 'seq'
        if n.fields[0].fields:
            return 'leaf'
        if nk == 2:
            return 'binary'
        if nk == 1:
            return 'prefix'
        return 'malformed'

    def P(self, n):
        return spec_prec(self.C, op_term(n))

    def both_assign(self, p, o):
        A = self.C.VI('Operator', 'Assign')
        return z3.And(op_term(p) == A, op_term(o) == A)

    def walk(self, n, wrapper_is_paren=True):
        k = self.kind(n)
        ch = children(n)
        if k == 'paren':
            if len(ch) > 1:
                self.bad = 'root node with %d children' % len(ch)
                return
            if wrapper_is_paren:
                self.items.append(('(',))
            if ch:
                self.walk(ch[0])
            if wrapper_is_paren:
                self.items.append((')',))
        elif k == 'leaf':
            if ch:
                self.bad = 'leaf with children'
                return
            self.items.append(('leaf', n))
        elif k == 'func':
            if len(ch) != 1:
                self.bad = 'function node with %d children' % len(ch)
                return
            self.items.append(('leaf', n))
            if self.kind(ch[0]) not in ('paren', 'leaf', 'func'):
                self.clauses.append(z3.BoolVal(False))
            self.walk(ch[0])
        elif k == 'binary':
            L, R = ch
            kl, kr = self.kind(L), self.kind(R)
            if kl == 'binary':
                self.clauses.append(z3.Or(self.P(L) > self.P(n), z3.And(self.P(L) == self.P(n), z3.Not(self.both_assign(L, n)))))
            elif kl == 'prefix':
                self.clauses.append(self.P(L) > self.P(n))
            elif kl in ('seq', 'malformed'):
                self.clauses.append(z3.BoolVal(False))
            if kr == 'binary':
                self.clauses.append(z3.Or(self.P(R) > self.P(n), z3.And(self.P(R) == self.P(n), self.both_assign(R, n))))
            elif kr in ('seq', 'malformed'):
                self.clauses.append(z3.BoolVal(False))
            self.walk(L)
            self.items.append(('op', n))
            self.walk(R)
        elif k == 'prefix':
            X = ch[0]
            kx = self.kind(X)
            if kx == 'binary':
                self.clauses.append(self.P(X) > self.P(n))
            elif kx in ('seq', 'malformed'):
                self.clauses.append(z3.BoolVal(False))
            self.items.append(('op', n))
            self.walk(X)
        elif k == 'seq':
            for i, e in enumerate(ch):
                if i:
                    self.items.append(('op', n))
                if self.kind(e) != 'paren':
                    self.bad = 'sequence element is not wrapped'
                    return
                self.walk(e, wrapper_is_paren=False)
        else:
            self.bad = 'malformed node %s with %d children' % (op_concrete(self.C, n), len(ch))

    def claim(self, root):
        """z3 Bool: tree is the correct parse of the skeleton"""
        C = self.C
        if self.kind(root) != 'paren':
            return z3.BoolVal(False), 'result is not a root node'
        self.walk(root, wrapper_is_paren=False)
        if self.bad:
            return z3.BoolVal(False), self.bad
        spec = self.S.spec
        if len(self.items) != len(spec):
            return z3.BoolVal(False), 'yield has %d items, skeleton %d tokens' % (len(self.items), len(spec))
        eqs = []
        for i, (it, k) in enumerate(zip(self.items, spec)):
            if k in '()':
                if it[0] != k:
                    return z3.BoolVal(False), 'token %d: expected %s' % (i, k)
            elif k.startswith('id:'):
                if it[0] != 'leaf' or not it[1].fields[0].fields or not isinstance(it[1].fields[0].fields[0], SStr) \
                        or it[1].fields[0].fields[0].concrete() != k[3:]:
                    return z3.BoolVal(False), 'token %d: expected identifier %s' % (i, k[3:])
            elif k in ('int', 'float', 'bool', 'str'):
                if it[0] != 'leaf' or op_concrete(C, it[1]) != 'Const':
                    return z3.BoolVal(False), 'token %d: expected literal' % i
            elif k in ('BIN', 'PRE', 'ASG', 'SEQ'):
                if it[0] != 'op':
                    return z3.BoolVal(False), 'token %d: expected operator' % i
                n = it[1]
                want_kind = {'BIN': 'binary', 'ASG': 'binary', 'PRE': 'prefix', 'SEQ': 'seq'}[k]
                if self.kind(n) != want_kind:
                    return z3.BoolVal(False), 'token %d: node kind %s, expected %s' % (i, self.kind(n), want_kind)
                eqs.append(op_term(n) == expected_op(C, k, self.S.slot_at(i)[1]))
            elif k.startswith('tok:'):
                if it[0] != 'op':
                    return z3.BoolVal(False), 'token %d: expected operator' % i
                tn = k[4:]
                table = dict(TOK2OP_BIN)
                table.update(TOK2OP_ASG)
                table.update(TOK2OP_SEQ)
                table['Not'] = 'Not'
                want = table.get(tn)
                if self.kind(it[1]) == 'prefix' and tn == 'Minus':
                    want = 'Neg'
                eqs.append(op_term(it[1]) == C.VI('Operator', want))
        return z3.And(*(eqs + self.clauses)) if (eqs or self.clauses) else z3.BoolVal(True), None


_C = {}


def ctx():
    if 'c' not in _C:
        _C['c'] = Ctx(frontend.load(overflow_checks=True), overflow_checks=True)
    return _C['c']


def check_skeleton(spec, res, timeout_ms, cvc5_rate, seed, pid=PID, exclude=True):
    C = ctx()
    S = Skeleton(C, spec)
    excl = exclusions(S) if exclude else []
    t0 = time.time()
    ex, outs = S.run(extra_cons=excl)
    res.exec_s += time.time() - t0
    res.feas_queries += ex.nq
    res.bodies |= ex.bodies_used
    res.models |= ex.models_used
    res.paths += len(outs)
    pr = checklib.Prover(res, timeout_ms, cvc5_rate, random.Random(hash((seed, tuple(spec))) & 0xffffffff))
    base = len(S.cons) + len(excl)
    for i, o in enumerate(outs):
        if S.slots:
            res.nontrivial_paths += 1
        name = '%s path %d' % (S.text(), i)
        why = None
        if o.kind == 'panic':
            claim = z3.BoolVal(False)
            why = 'panic: %s' % o.value
        elif o.value.variant != 0:
            claim = z3.BoolVal(False)
            why = 'well-formed input rejected: %s' % error_name(C.meta, o.value.fields[0])
        else:
            claim, why = TreeCheck(S).claim(o.value.fields[0])
        verdict, model = pr.prove(name, o.pc, claim)
        if verdict == 'unsat' and pr.rng.random() < TRACE_RATE[0]:
            fe_, m_ = pr.feasible(o.pc)
            if fe_:
                validate_tree_path(C, res, S, o, m_, random.Random(1), 2.0)
        if len(res.samples) < 1:
            res.samples.append(dict(skeleton=S.text(), path=i, path_condition=[str(z3.simplify(c))[:200] for c in o.pc[base:]][:3],
                                    tree=(show_node(C.meta, o.value.fields[0]) if o.kind == 'return' and o.value.variant == 0 else why), verdict=verdict))
        if verdict == 'sat':
            src = S.render(model)
            res.sat.append(dict(key='skeleton=%s' % S.text(), source=src, witness=src,
                                got=(show_node(C.meta, o.value.fields[0], model) if o.kind == 'return' and o.value.variant == 0 else why),
                                why=why or 'tree violates precedence consistency / token order'))


def unit(u, res):
    spec, timeout_ms, cvc5_rate, seed = u
    check_skeleton(spec, res, timeout_ms, cvc5_rate, seed)


# ---------------------------------------------------------------- replay: independent concrete reference parser
def ref_parse(toks):
    """precedence-climbing reference parser over concrete token texts -> shape string like the runner's `shape` line"""
    pos = [0]
    BINP = {'^': 120, '*': 100, '/': 100, '%': 100, '+': 95, '-': 95, '<': 80, '>': 80, '<=': 80, '>=': 80, '==': 80, '!=': 80,
            '&&': 75, '||': 70, '=': 50, '+=': 50, '-=': 50, '*=': 50, '/=': 50, '%=': 50, '^=': 50, '&&=': 50, '||=': 50}
    NAME = {v: k for k, v in TOKEN_TEXT.items()}
    OPN = dict(TOK2OP_BIN)
    OPN.update(TOK2OP_ASG)

    def peek():
        return toks[pos[0]] if pos[0] < len(toks) else None

    def primary():
        t = peek()
        pos[0] += 1
        if t == '(':
            if peek() == ')':
                pos[0] += 1
                return 'RootNode()'
            e = seq()
            assert peek() == ')'
            pos[0] += 1
            return 'RootNode(%s)' % e
        if t[0].isalpha() and t not in ('true',):
            nx = peek()
            if nx is not None and (nx == '(' or nx[0].isalnum() or nx[0] == '"'):
                return 'FunctionIdentifier[%s](%s)' % (t.encode().hex(), primary())
            if nx in BINP and BINP[nx] == 50:
                return 'VariableIdentifierWrite[%s]()' % t.encode().hex()
            return 'VariableIdentifierRead[%s]()' % t.encode().hex()
        lit = {'1': 'I:1', '2.5': 'F:4004000000000000', 'true': 'B:1', '"s"': 'S:73'}[t]
        return 'Const[%s]()' % lit

    def unary():
        t = peek()
        if t in ('-', '!'):
            pos[0] += 1
            # prefix binds tighter than everything except ^
            operand = unary()
            operand = climb_from(operand, 111)
            return '%s(%s)' % ('Neg' if t == '-' else 'Not', operand)
        return primary()

    def climb_from(lhs, minp):
        while True:
            t = peek()
            if t not in BINP or BINP[t] < minp:
                return lhs
            p = BINP[t]
            pos[0] += 1
            rhs = unary()
            while True:
                t2 = peek()
                if t2 in BINP and (BINP[t2] > p or (BINP[t2] == p and t == '=' and t2 == '=')):
                    rhs = climb_from(rhs, BINP[t2])
                else:
                    break
            lhs = '%s(%s %s)' % (OPN[NAME[t]], lhs, rhs)

    def expr():
        return climb_from(unary(), 0)

    def seq():
        e = expr()
        if peek() == ',':
            items = ['RootNode(%s)' % e]
            while peek() == ',':
                pos[0] += 1
                items.append('RootNode(%s)' % expr())
            return 'Tuple(%s)' % ' '.join(items)
        return e

    r = 'RootNode(%s)' % seq()
    assert pos[0] == len(toks)
    return r


def replay_ce(ce):
    src = ce['source']
    text = replay.case_text('c', 'build', src)
    want = ref_parse(src.split(' '))
    details = []
    bad = False
    for prof in ('dev', 'release'):
        out = replay.run_cases(text, prof)['c']
        got = out.get('shape') or ('panic' if 'panic' in out else str(out.get('build')))
        details.append('%s: got %s want %s' % (prof, got, want))
        bad = bad or (got != want)
    return ('reproduced' if bad else 'not_reproduced'), details


def skeleton_set(tier):
    maxn, depth = (7, 1) if tier == 'quick' else (9, 2)
    specs = []
    seen = set()
    for n in range(1, maxn + 1):
        for sk in gen_S(n, depth):
            for lit in (False, True):
                if lit and ('FUN' in sk or 'WRT' in sk or n > 5):
                    continue
                sp = tuple(name_operands(sk, lit))
                if sp not in seen:
                    seen.add(sp)
                    specs.append(list(sp))
    return specs, maxn, depth


def main():
    t0 = time.time()
    tier = checklib.env_tier()
    seed = checklib.env_seed()
    timeout_ms = 60000 if tier == 'quick' else 600000
    cvc5_rate = 0.01 if tier == 'quick' else 0.1
    frontend.load(overflow_checks=True)
    specs, maxn, depth = skeleton_set(tier)
    if tier == 'thorough':
        # 9-token skeletons are sampled by seed to keep the run within budget; all shorter ones are complete
        short = [s for s in specs if len(s) <= 8]
        long_ = [s for s in specs if len(s) > 8]
        random.Random(seed).shuffle(long_)
        specs = short + long_[:6000]
    units = [(s, timeout_ms, cvc5_rate, seed) for s in specs]
    random.Random(seed).shuffle(units)
    results = checklib.run_units(checklib.safe_worker(unit), units)
    checklib.finish(PID, results, t0=t0, replay_fn=replay_ce,
                    rule='every well-formed token skeleton (independent grammar: operands, calls, parentheses, prefix/binary/assignment slots) up to '
                         '%d tokens, parenthesis depth %d; each slot is a solver variable over all operators of its class; a path is non-trivial '
                         'when the skeleton has at least one slot; one obligation per path' % (maxn, depth),
                    explanation='bounded symbolic verification: tokens_to_operator_tree and its callees are executed from MIR on token vectors whose operator '
                                'tokens are symbolic; state merging yields one path per structural decision; each returned tree must satisfy in-order yield = '
                                'skeleton and local precedence consistency w.r.t. the README table for every operator assignment on the path (z3 unsat)',
                    assumptions=['unclaimed form excluded by assumption: the `x ^ -y ^ z` pattern', 'two adjacent equal-precedence operators group to the right only if both are `=` (chains mixing `=` and op-assign group left-to-right, as the operator table documents)',
                                 'assignment slots only in head position (identifier ASG ...)',
                                 'token vectors are given (tokenizer covered by C06/C07)',
                                 'inputs longer than the bound are outside the claim'],
                    bounds=dict(max_tokens=maxn, paren_depth=depth, skeletons=len(units), solver_timeout_ms=timeout_ms))


if __name__ == '__main__':
    main()
