"""C03 — operators compute exact, correctly typed results or a typed error.

Unit: Operator::eval (real MIR incl. as_int/as_number/as_string/as_boolean, expect_*, the i64 kernel impl, derived
PartialEq for Value) on [a, b] / [a] with every payload a solver variable; oracle: independent reference terms."""
import sys, os, time, itertools, random
import z3
sys.path.insert(0, os.path.dirname(os.path.dirname(os.path.abspath(__file__))))
import frontend, checklib, replay, models
from harness import *
from shapes import *

PID = 'C03'
BINOPS = ['Add', 'Sub', 'Mul', 'Div', 'Mod', 'Exp', 'Eq', 'Neq', 'Gt', 'Lt', 'Geq', 'Leq', 'And', 'Or']
UNOPS = ['Neg', 'Not']
SYMBOL = {'Add': '+', 'Sub': '-', 'Mul': '*', 'Div': '/', 'Mod': '%', 'Exp': '^', 'Eq': '==', 'Neq': '!=', 'Gt': '>', 'Lt': '<',
          'Geq': '>=', 'Leq': '<=', 'And': '&&', 'Or': '||', 'Neg': '-', 'Not': '!'}
ARITH_ERR = {'Add': 'AdditionError', 'Sub': 'SubtractionError', 'Mul': 'MultiplicationError', 'Div': 'DivisionError',
             'Mod': 'ModulationError', 'Neg': 'NegationError'}
TYPE_ERRS = {'ExpectedString', 'ExpectedInt', 'ExpectedFloat', 'ExpectedNumber', 'ExpectedNumberOrString', 'ExpectedBoolean',
             'ExpectedTuple', 'ExpectedEmpty', 'WrongTypeCombination', 'TypeError'}
MIN = z3.BitVecVal(-2 ** 63, 64)


def uf(name, *args):
    """shared uninterpreted libm symbol (same names as models.py), concrete through the host libm when possible"""
    conc = [models.fp_concrete(a) for a in args]
    if all(c is not None for c in conc):
        r = models.host_libm(name, *conc)
        if r is not None:
            return models.fp_from_py(r)
    f = z3.Function(('libm_' + name) if name != 'fmod' else 'fmod', *([F64] * (len(args) + 1)))
    return f(*args)


def to_fp(spec):
    return z3.fpSignedToFP(RNE, spec[1], F64) if spec[0] == 'I' else spec[1]


def ref_eq(a, b):
    """structural equality of two specs as a z3 Bool"""
    if a[0] != b[0]:
        return z3.BoolVal(False)
    k = a[0]
    if k == 'I':
        return a[1] == b[1]
    if k == 'F':
        return z3.fpEQ(a[1], b[1])
    if k == 'B':
        return a[1] == b[1]
    if k == 'S':
        if len(a[1]) != len(b[1]):
            return z3.BoolVal(False)
        return z3.And(*[x == y for x, y in zip(a[1], b[1])]) if a[1] else z3.BoolVal(True)
    if k == 'T':
        if len(a[1]) != len(b[1]):
            return z3.BoolVal(False)
        return z3.And(*[ref_eq(x, y) for x, y in zip(a[1], b[1])]) if a[1] else z3.BoolVal(True)
    return z3.BoolVal(True)


def ref_str_lt(a, b, or_eq):
    n = min(len(a), len(b))
    r = z3.BoolVal(True) if len(a) < len(b) else z3.BoolVal(False) if len(a) > len(b) else z3.BoolVal(bool(or_eq))
    for i in range(n - 1, -1, -1):
        r = z3.If(z3.ULT(a[i], b[i]), True, z3.If(z3.UGT(a[i], b[i]), False, r))
    return r


def reference(op, A, B=None):
    """list of (cond, outcome); outcome = ('val', spec) | ('arith',) | ('type',). Conditions partition the input space."""
    T = z3.BoolVal(True)
    num = lambda s: s[0] in ('I', 'F')
    if op in ('Add', 'Sub', 'Mul', 'Div', 'Mod'):
        if op == 'Add' and A[0] == 'S' and B[0] == 'S':
            return [(T, ('val', ('S', list(A[1]) + list(B[1]))))]
        if not (num(A) and num(B)):
            return [(T, ('type',))]
        if A[0] == 'I' and B[0] == 'I':
            a, b = A[1], B[1]
            if op == 'Mul':
                # exact product fits in i64 <=> z3's signed no-overflow/no-underflow predicates (see models.py / kani)
                fits = z3.And(z3.BVMulNoOverflow(a, b, True), z3.BVMulNoUnderflow(a, b))
                return [(fits, ('val', ('I', a * b))), (z3.Not(fits), ('arith',))]
            if op in ('Add', 'Sub'):
                f = {'Add': lambda x, y: x + y, 'Sub': lambda x, y: x - y}[op]
                wide = f(z3.SignExt(64, a), z3.SignExt(64, b))
                fits = z3.And(wide >= z3.SignExt(64, MIN), wide <= z3.BitVecVal(2 ** 63 - 1, 128))
                return [(fits, ('val', ('I', z3.Extract(63, 0, wide)))), (z3.Not(fits), ('arith',))]
            bad = z3.Or(b == 0, z3.And(a == MIN, b == -1))
            res = (a / b) if op == 'Div' else z3.SRem(a, b)     # bvsdiv truncates; bvsrem takes the dividend's sign
            return [(z3.Not(bad), ('val', ('I', res))), (bad, ('arith',))]
        x, y = to_fp(A), to_fp(B)
        r = {'Add': lambda: z3.fpAdd(RNE, x, y), 'Sub': lambda: z3.fpSub(RNE, x, y), 'Mul': lambda: z3.fpMul(RNE, x, y),
             'Div': lambda: z3.fpDiv(RNE, x, y), 'Mod': lambda: uf('fmod', x, y)}[op]()
        return [(T, ('val', ('F', r)))]
    if op == 'Exp':
        if not (num(A) and num(B)):
            return [(T, ('type',))]
        return [(T, ('val', ('F', uf('powf', to_fp(A), to_fp(B)))))]
    if op == 'Neg':
        if A[0] == 'I':
            return [(A[1] != MIN, ('val', ('I', -A[1]))), (A[1] == MIN, ('arith',))]
        if A[0] == 'F':
            return [(T, ('val', ('F', z3.fpNeg(A[1]))))]
        return [(T, ('type',))]
    if op in ('Eq', 'Neq'):
        e = ref_eq(A, B)
        return [(T, ('val', ('B', e if op == 'Eq' else z3.Not(e))))]
    if op in ('Gt', 'Lt', 'Geq', 'Leq'):
        if A[0] == 'S' and B[0] == 'S':
            a, b = A[1], B[1]
            r = {'Lt': ref_str_lt(a, b, False), 'Leq': ref_str_lt(a, b, True), 'Gt': ref_str_lt(b, a, False), 'Geq': ref_str_lt(b, a, True)}[op]
            return [(T, ('val', ('B', r)))]
        if not (num(A) and num(B)):
            return [(T, ('type',))]
        if A[0] == 'I' and B[0] == 'I':
            a, b = A[1], B[1]
            r = {'Lt': a < b, 'Leq': a <= b, 'Gt': a > b, 'Geq': a >= b}[op]
            return [(T, ('val', ('B', r)))]
        x, y = to_fp(A), to_fp(B)
        r = {'Lt': z3.fpLT(x, y), 'Leq': z3.fpLEQ(x, y), 'Gt': z3.fpGT(x, y), 'Geq': z3.fpGEQ(x, y)}[op]
        return [(T, ('val', ('B', r)))]
    if op in ('And', 'Or'):
        if A[0] == 'B' and B[0] == 'B':
            return [(T, ('val', ('B', z3.And(A[1], B[1]) if op == 'And' else z3.Or(A[1], B[1]))))]
        return [(T, ('type',))]
    if op == 'Not':
        if A[0] == 'B':
            return [(T, ('val', ('B', z3.Not(A[1]))))]
        return [(T, ('type',))]
    raise ValueError(op)


def claim_for(meta, op, outcome, refcases):
    """z3 Bool: this path's outcome is what the reference prescribes"""
    alts = []
    for cond, want in refcases:
        if outcome.kind != 'return':
            continue
        r = outcome.value
        if want[0] == 'val':
            if r.variant == 0:
                alts.append(z3.And(cond, value_matches_spec(meta, r.fields[0], want[1])))
        else:
            if r.variant == 1:
                en = error_name(meta, r.fields[0])
                okname = (en == ARITH_ERR.get(op)) if want[0] == 'arith' else (en in TYPE_ERRS)
                if okname:
                    alts.append(cond)
    return z3.Or(*alts) if alts else z3.BoolVal(False)


_C = {}


def ctx(ofc):
    if ofc not in _C:
        _C[ofc] = Ctx(frontend.load(overflow_checks=ofc), overflow_checks=ofc)
    return _C[ofc]


def unit(u, res):
    op, sa, sb, ofc, seed, cvc5_rate, timeout_ms = u
    C = ctx(ofc)
    meta = C.meta
    cons = []
    va, A = make_value(C, sa, 'a', cons)
    args = [va]
    B = None
    if sb is not None:
        vb, B = make_value(C, sb, 'b', cons)
        args.append(vb)
    body = C.method('Operator', 'eval')
    t0 = time.time()
    ex, outs = C.run(body, lambda st: [ref_to(st, C.operator(op)), ref_to(st, VecV(args)), ref_to(st, C.empty_context())], pc=cons)
    res.exec_s += time.time() - t0
    res.feas_queries += ex.nq
    res.bodies |= ex.bodies_used
    res.models |= ex.models_used
    res.paths += len(outs)
    refcases = reference(op, A, B)
    pr = checklib.Prover(res, timeout_ms, cvc5_rate, random.Random(hash((seed, op, sa, sb)) & 0xffffffff))
    for i, o in enumerate(outs):
        if any(z3.is_expr(c) and not z3.is_true(z3.simplify(c)) for c in o.pc[len(cons):]) or cons:
            res.nontrivial_paths += 1
        name = '%s(%s%s) path %d' % (op, sa, ',' + sb if sb else '', i)
        if o.kind == 'panic':
            feas, model = pr.feasible(o.pc)
            res.obligations += 1
            if feas is None:
                res.unknown.append(name)
                continue
            if not feas:
                res.discharged += 1
                continue
            verdict, model = 'sat', model
            got = 'panic: ' + str(o.value)
        else:
            claim = claim_for(meta, op, o, refcases)
            verdict, model = pr.prove(name, o.pc, claim, diversify=diversify_plan([A, B]))
            got = None
        # engine validation on a seed-chosen sample of paths: a model of the path condition is a concrete operand pair; the native crate
        # must produce exactly the outcome this path predicts (skipped where the value depends on an uninterpreted libm symbol)
        if o.kind == 'return' and pr.rng.random() < TRACE_RATE[0] and not (op in ('Exp',) or (op == 'Mod' and 'F' in (A[0], (B or ('',))[0]))):
            feas_, m_ = pr.feasible(o.pc)
            if feas_:
                a_c = spec_concrete(A, m_)
                b_c = spec_concrete(B, m_) if B is not None else None
                pred = render_result(meta, o.value, m_)
                vars_ = [('a', tuple_fix(a_c))] + ([('b', tuple_fix(b_c))] if b_c is not None else [])
                expr = ('a %s b' % SYMBOL[op]) if b_c is not None else ('%sa' % SYMBOL[op])
                nat = replay.run_cases(replay.case_text('c', 'eval_with_context', expr, vars=vars_), 'dev' if ofc else 'release')['c'].get('result')
                okp = nat is not None and ((pred[0] == 'Ok' and nat[0] == 'Ok' and norm_val(pred[1]) == norm_val(nat[1])) or (pred[0] == 'Err' and nat[0] == 'Err' and pred[1] == nat[1]))
                if okp:
                    res.traces_validated += 1
                else:
                    res.inconclusive.append('engine validation: path of %s predicts %s for %s, %s but the native crate gives %s' % (name, pred, a_c, b_c, nat))
        if len(res.samples) < 2:
            res.samples.append(dict(unit=name, overflow_checks=ofc, path_condition=[str(z3.simplify(c))[:160] for c in o.pc[len(cons):]][:4],
                                    outcome=(render_result(meta, o.value)[0] if o.kind == 'return' else 'panic'), verdict=verdict))
        if verdict == 'sat':
            for mdl in [model] + list(pr.extra_models if o.kind != 'panic' else []):
                a_c = spec_concrete(A, mdl)
                b_c = spec_concrete(B, mdl) if B is not None else None
                res.sat.append(dict(key='op=%s types=%s,%s' % (op, spec_type(A), spec_type(B) if B else '-'), op=op, a=a_c, b=b_c,
                                    overflow_checks=ofc, got=got or str(render_result(meta, o.value, mdl)),
                                    witness='%s %s %s' % (a_c, SYMBOL[op], b_c)))


TRACE_RATE = [0.02]


def norm_val(v):
    if isinstance(v, (list, tuple)):
        if len(v) == 2 and v[0] == 'Tuple':
            return ('Tuple', tuple(norm_val(x) for x in v[1]))
        return tuple(norm_val(x) for x in v)
    return v


def replay_ce(ce):
    """re-run natively (dev + release) and judge with the concrete reference"""
    op, a, b = ce['op'], ce['a'], ce['b']
    vars_ = [('a', tuple_fix(a))] + ([('b', tuple_fix(b))] if b is not None else [])
    expr = ('a %s b' % SYMBOL[op]) if b is not None else ('%sa' % SYMBOL[op])
    text = replay.case_text('c', 'eval_with_context', expr, vars=vars_)
    details = []
    bad = False
    for prof in ('dev', 'release'):
        out = replay.run_cases(text, prof)['c']
        want = concrete_reference(op, tuple_fix(a), tuple_fix(b) if b is not None else None)
        got = ('panic', out['panic']) if 'panic' in out else out.get('result')
        okk = judge(op, want, got)
        details.append('%s: got %s want %s -> %s' % (prof, got, want, 'ok' if okk else 'VIOLATES'))
        bad = bad or not okk
    return ('reproduced' if bad else 'not_reproduced'), details


def tuple_fix(v):
    if isinstance(v, list):
        v = tuple(v)
    if v[0] == 'Tuple':
        return ('Tuple', [tuple_fix(x) for x in v[1]])
    return tuple(v)


def py_to_spec(v):
    k = v[0]
    if k == 'Int':
        return ('I', z3.BitVecVal(v[1], 64))
    if k == 'Float':
        bits = 0x7ff8000000000000 if v[1] == 'nan' else v[1]
        return ('F', z3.fpBVToFP(z3.BitVecVal(bits, 64), F64))
    if k == 'Boolean':
        return ('B', z3.BoolVal(v[1]))
    if k == 'String':
        return ('S', [z3.BitVecVal(ord(c), 32) for c in v[1]])
    if k == 'Tuple':
        return ('T', [py_to_spec(x) for x in v[1]])
    return ('E',)


def concrete_reference(op, a, b):
    cases = reference(op, py_to_spec(a), py_to_spec(b) if b is not None else None)
    for cond, want in cases:
        if z3.is_true(z3.simplify(cond)):
            return want
    return None


def judge(op, want, got):
    if want is None or got is None or got[0] == 'panic':
        return False
    if want[0] == 'val':
        if got[0] != 'Ok':
            return False
        spec = want[1]
        g = py_to_spec(got[1])
        if spec[0] != g[0]:
            return False
        if spec[0] == 'F':
            return z3.is_true(z3.simplify(spec[1] == g[1]))
        return z3.is_true(z3.simplify(ref_eq(spec, g)))
    if got[0] != 'Err':
        return False
    return (got[1] == ARITH_ERR.get(op)) if want[0] == 'arith' else (got[1] in TYPE_ERRS)


def main():
    t0 = time.time()
    tier = checklib.env_tier()
    seed = checklib.env_seed()
    shapes = SHAPES_BASIC if tier == 'quick' else SHAPES_BASIC + ['T[S1,B]', 'T[T0]', 'T[E,F]', 'S3', 'T[I,F,S1,B]']
    # larger operands for the operators that look inside them (concatenation, lexicographic order, structural equality)
    large_pairs = [('S4', 'S4'), ('S5', 'S3'), ('S3', 'S5'), ('T[I,F,S1,B]', 'T[I,F,S1,B]'), ('T[I,I,I,I,I]', 'T[I,I,I,I,I]'), ('T[T[I,S2],T[F,B]]', 'T[T[I,S2],T[F,B]]'),
                   ('T[I,I,I,I]', 'T[I,I,I]')]
    timeout_ms = 60000 if tier == 'quick' else 600000
    cvc5_rate = 0.02 if tier == 'quick' else 0.25
    TRACE_RATE[0] = 0.02 if tier == 'quick' else 0.2
    units = []
    for ofc in (True, False):
        frontend.load(overflow_checks=ofc)
        for op in BINOPS:
            for sa in shapes:
                for sb in shapes:
                    units.append((op, sa, sb, ofc, seed, cvc5_rate, timeout_ms))
        for op in UNOPS:
            for sa in shapes:
                units.append((op, sa, None, ofc, seed, cvc5_rate, timeout_ms))
        for op in ('Add', 'Eq', 'Neq', 'Gt', 'Lt', 'Geq', 'Leq'):
            for sa, sb in large_pairs:
                units.append((op, sa, sb, ofc, seed, cvc5_rate, timeout_ms))
    random.Random(seed).shuffle(units)
    import kani_run
    kh = kani_run.start(jobs=5, tag='C03', harnesses=['checked_add_matches_i128', 'checked_sub_matches_i128', 'checked_mul_matches_i128', 'checked_neg_matches_spec',
                                                       'checked_div_rem_classification', 'checked_div_rem_values_small'])
    results = checklib.run_units(checklib.safe_worker(unit), units)
    kres = kani_run.join(kh)
    if kres.get('ran'):
        kr = checklib.UnitResult('kani kernel harnesses')
        kr.obligations = kres.get('total') or 0
        kr.discharged = kres.get('verified') or 0
        kr.samples.append(dict(unit='Kani on compiled code: <i64 as EvalexprInt>::checked_{add,sub,mul,neg} equal the i128 result or the dedicated error; div/rem error classification', harnesses=kres.get('harnesses')))
        if not kres.get('ok'):
            kr.inconclusive.append('Kani did not verify every kernel harness: %s' % {k: kres.get(k) for k in ('exit', 'verified', 'failed', 'total', 'failed_checks', 'vacuous_cover')})
        results.append(kr)
    checklib.finish(PID, results, t0=t0, replay_fn=replay_ce, exhaustive=False, extra=dict(kani=kres),
                    rule='one symbolic run of Operator::eval per (operator, operand shape pair, overflow-check setting); every payload '
                         '(2x64 bit ints, f64s, bools, chars) is a solver variable; a path is non-trivial when its path condition '
                         'mentions a free variable; one obligation per path: PC => outcome equals the reference term',
                    explanation='bounded symbolic verification: the real MIR of Operator::eval and its callees is executed symbolically; '
                                'each path yields an SMT obligation against an independently written reference (i128 integer semantics, IEEE FP64 terms, '
                                'shared uninterpreted symbols for powf/fmod); unsat = holds for all payloads of that shape',
                    assumptions=['powf and float % are uninterpreted (shared between code and reference): libm itself is not verified',
                                 'NaN payload bits are not distinguished (z3 has one NaN)',
                                 'strings up to 2 chars, tuples up to the listed shapes; operands delivered as already-evaluated values',
                                 'mixed int/float comparison follows the documented int->float conversion rule',
                                 'std integer/float kernels are modelled (models.py); see kani/ for their validation against compiled std'],
                    bounds=dict(operators=BINOPS + UNOPS, operand_shapes=shapes, overflow_checks=[True, False], solver_timeout_ms=timeout_ms))


if __name__ == '__main__':
    main()
