"""C12 — all evaluation entry points are views of one evaluator.

Modular and unbounded in the expression string / tree and the context: each wrapper body (interface::eval_* and Node::eval_*) is executed
from MIR with the untyped evaluator it delegates to replaced by a havoc stub that logs its arguments and returns an arbitrary
Result<Value, Error>; the wrapper's result must be the documented projection of that result, and the stub must have been called exactly
once, with the caller's string/tree and context (a fresh default HashMapContext for the context-free forms)."""
import zlib
import sys, os, time, random, itertools, re
import z3
sys.path.insert(0, os.path.dirname(os.path.dirname(os.path.abspath(__file__))))
import frontend, checklib, replay, models
from harness import *
from engine import NOTFOUND, identical

PID = 'C12'
CVC5_RATE = [0.01]
TYPES = ['string', 'int', 'float', 'number', 'boolean', 'tuple', 'empty']
VALUE_KINDS = ['String', 'Float', 'Int', 'Boolean', 'Tuple', 'Empty', 'Tuple0', 'String0']
EXPECTED_ERR = {'string': 'ExpectedString', 'int': 'ExpectedInt', 'float': 'ExpectedFloat', 'number': 'ExpectedNumber', 'boolean': 'ExpectedBoolean',
                'tuple': 'ExpectedTuple', 'empty': 'ExpectedEmpty'}
ACCEPTS = {'string': ['String', 'String0'], 'int': ['Int'], 'float': ['Float'], 'number': ['Int', 'Float'], 'boolean': ['Boolean'], 'tuple': ['Tuple', 'Tuple0'], 'empty': ['Empty']}
# the untyped evaluator may itself fail with one of the typed "expected ..." errors (a type-safe assignment, a user function that demands a type):
# a wrapper has to hand these through unchanged like any other error, whatever its own projection is
ERR_PAYLOADS = {'string': ['Int', 'Boolean'], 'int': ['String', 'Float'], 'float': ['Int', 'String'], 'number': ['String', 'Boolean'], 'boolean': ['Int', 'String'],
                'tuple': ['Int', 'String'], 'empty': ['Int', 'String']}
ERR_KINDS = ['ERR'] + ['ERR:%s:%s' % (t, pk) for t in TYPES for pk in ERR_PAYLOADS[t]]
_C = {}


def ctx():
    if 'c' not in _C:
        _C['c'] = Ctx(frontend.load(overflow_checks=True), overflow_checks=True)
    return _C['c']


def havoc_value(C, kind):
    if kind == 'Int':
        return C.v_int(z3.BitVec('hv_i', 64))
    if kind == 'Boolean':
        return C.v_bool(z3.Bool('hv_b'))
    if kind == 'Float':
        return C.v_float(z3.FP('hv_f', F64))
    if kind == 'String':
        return C.v_str(SStr([Int(z3.BitVec('hv_c0', 32), False), Int(z3.BitVec('hv_c1', 32), False)]))
    if kind == 'Tuple':
        return C.v_tuple([C.v_int(z3.BitVec('hv_t0', 64)), C.v_str(SStr([Int(z3.BitVec('hv_t1', 32), False)]))])
    if kind == 'Tuple0':
        return C.v_tuple([])        # the degenerate members of a type: an empty tuple is not the empty value, an empty string is a string
    if kind == 'String0':
        return C.v_str(SStr([]))
    return C.v_empty()


def wrappers(C):
    """(description, body, form, typ, level) for every entry point; form in {'ctx', 'ctx_mut', 'nocontext'}; level in {'string', 'tree'}"""
    out = []
    for level in ('string', 'tree'):
        for typ in [None] + TYPES:
            for form in ('ctx', 'ctx_mut', 'nocontext'):
                base = 'eval' if typ is None else 'eval_' + typ
                name = base + {'ctx': '_with_context', 'ctx_mut': '_with_context_mut', 'nocontext': ''}[form]
                if typ is None and form != 'nocontext':
                    continue          # the untyped context forms are the evaluators themselves (checked as compositions below)
                if level == 'string':
                    b = C.p.find_free(name)
                else:
                    b = C.p.find_inherent('Node', name)
                if b is None:
                    raise Unsupported('entry point %s (%s level) not found' % (name, level))
                out.append((('Node::' if level == 'tree' else '') + name, b, form, typ, level))
    return out


def project(C, typ, kind, value):
    """expected wrapper result for an Ok(value) of the given kind"""
    if typ is None:
        return ok(value)
    if kind in ACCEPTS[typ]:
        if typ == 'number' and kind == 'Int':
            return ok(Fl(z3.fpSignedToFP(RNE, value.fields[0].t, F64)))
        if typ == 'empty':
            return ok(mkunit())
        return ok(value.fields[0])
    return err(Adt('EvalexprError', C.VI('EvalexprError', EXPECTED_ERR[typ]), [value]))


def equal_term(a, b):
    """z3 Bool: two executor values are equal (structural; floats bit-for-bit with one NaN)"""
    if isinstance(a, Int) and isinstance(b, Int):
        return a.t == b.t if a.t.size() == b.t.size() else z3.BoolVal(False)
    if isinstance(a, Fl) and isinstance(b, Fl):
        return a.t == b.t
    if z3.is_expr(a) and z3.is_expr(b):
        return a == b
    if type(a) is not type(b):
        return z3.BoolVal(False)
    if isinstance(a, Adt):
        if a.ty != b.ty or len(a.fields) != len(b.fields):
            return z3.BoolVal(False)
        if isinstance(a.variant, int) and isinstance(b.variant, int):
            if a.variant != b.variant:
                return z3.BoolVal(False)
            vs = []
        else:
            va = a.variant if not isinstance(a.variant, int) else z3.BitVecVal(a.variant, 64)
            vb = b.variant if not isinstance(b.variant, int) else z3.BitVecVal(b.variant, 64)
            vs = [va == vb]
        return z3.And(*(vs + [equal_term(x, y) for x, y in zip(a.fields, b.fields)])) if (vs or a.fields) else z3.BoolVal(True)
    if isinstance(a, (VecV, SStr)):
        if len(a.items) != len(b.items):
            return z3.BoolVal(False)
        return z3.And(*[equal_term(x, y) for x, y in zip(a.items, b.items)]) if a.items else z3.BoolVal(True)
    if isinstance(a, Opaque):
        return z3.BoolVal(identical(a, b))
    return z3.BoolVal(identical(a, b))


def is_fresh_default_context(ex, v):
    v = ex.deref_all(v)
    if not (isinstance(v, Adt) and v.ty == 'HashMapContext'):
        return False
    maps = [f for f in v.fields if isinstance(f, HashMapV)]
    flag = [f for f in v.fields if z3.is_expr(f)]
    return len(maps) == 2 and all(not m.keys for m in maps) and len(flag) == 1 and z3.is_false(z3.simplify(flag[0]))


def unit(u, res):
    kind = u[0]
    if kind == 'compose':
        return unit_compose(u, res)
    _, wname, timeout_ms, seed = u[:4]
    symbolic_subject = len(u) > 4
    C = ctx()
    w = [x for x in wrappers(C) if x[0] == wname][0]
    name, body, form, typ, level = w
    pr = checklib.Prover(res, timeout_ms, CVC5_RATE[0], random.Random(zlib.crc32(repr(u).encode()) ^ checklib.env_seed()))
    stub_name = {('string', 'ctx'): 'eval_with_context', ('string', 'ctx_mut'): 'eval_with_context_mut', ('string', 'nocontext'): 'eval_with_context_mut',
                 ('tree', 'ctx'): 'Node::eval_with_context', ('tree', 'ctx_mut'): 'Node::eval_with_context_mut', ('tree', 'nocontext'): 'Node::eval_with_context_mut'}[(level, form)]
    all_eval = re.compile(r'(Node::)?eval_with_context(_mut)?')
    ex = C.new_exec()
    holder = {}

    def stub(ex_, st, c, args):
        sel = z3.BitVec('sel', 8)
        alls = VALUE_KINDS + ERR_KINDS[1:]
        opts = [(sel == i, k) for i, k in enumerate(alls)] + [(z3.UGE(sel, len(alls)), 'ERR')]
        tag = ex_.branch(st, opts)
        st.log.append((c, args[0], args[1], is_fresh_default_context(ex_, args[1])))
        if c.endswith('_mut'):
            # an evaluation may assign: the context it was given is havocked (one more variable with an arbitrary value), on success and on failure alike
            cv = ex_.deref_all(args[1])
            if isinstance(cv, Adt) and cv.ty == 'HashMapContext':
                for f in cv.fields:
                    if isinstance(f, HashMapV) and not any(k.concrete() == 'f' for k in f.keys):
                        f.keys.append(sstr('assigned_by_evaluation'))
                        f.vals.append(C.v_int(z3.BitVec('assigned_value', 64)))
                        break
        if tag == 'ERR':
            r = err(Adt('EvalexprError', C.VI('EvalexprError', 'CustomMessage'), [sstr('stub error')]))
        elif tag.startswith('ERR:'):
            _, et, pk = tag.split(':')
            r = err(Adt('EvalexprError', C.VI('EvalexprError', EXPECTED_ERR[et]), [havoc_value(C, pk)]))
        else:
            r = ok(havoc_value(C, tag))
        st.notes.append((tag, r))
        return r
    ex.overrides.append((all_eval, stub))
    built_tree = C.node(C.operator('RootNode'), [C.node(C.operator('Const', C.v_int(424242)))])
    build_err = Adt('EvalexprError', C.VI('EvalexprError', 'CustomMessage'), [sstr('stub build error')])

    def build_stub(ex_, st, c, args):
        # a string-level entry point may also precompile the string itself and delegate to the tree-level evaluator: precompilation is a havoc
        # stub as well (Ok(marker tree) | Err(marker error))
        tag = ex_.branch(st, [(z3.Bool('build_ok'), 'BUILT'), (z3.Not(z3.Bool('build_ok')), 'BUILDERR')])
        st.log.append(('build', args[0], None, False))
        st.notes.append((tag, None))
        return ok(copy_value(built_tree)) if tag == 'BUILT' else err(copy_value(build_err))
    marker_tokens = VecV([C.token('Identifier', sstr('marker'))])

    def tokenize_stub(ex_, st, c, args):
        # precompilation spelled out (tokenize, then tokens_to_operator_tree) is the same havoc: either half may fail, the pair counts as one build
        tag = ex_.branch(st, [(z3.Bool('tok_ok'), 'OK'), (z3.Not(z3.Bool('tok_ok')), 'ERR')])
        if tag == 'ERR':
            st.log.append(('build', args[0], None, False))
            st.notes.append(('BUILDERR', None))
            return err(copy_value(build_err))
        st.notes.append(('TOKENIZED', args[0]))
        return ok(copy_value(marker_tokens))

    def tree_stub(ex_, st, c, args):
        src = [n[1] for n in st.notes if n[0] == 'TOKENIZED']
        tag = ex_.branch(st, [(z3.Bool('build_ok'), 'BUILT'), (z3.Not(z3.Bool('build_ok')), 'BUILDERR')])
        st.log.append(('build', src[-1] if src and identical(ex_.deref_all(args[0]), marker_tokens) else None, None, False))
        st.notes.append((tag, None))
        return ok(copy_value(built_tree)) if tag == 'BUILT' else err(copy_value(build_err))
    if level == 'string':
        ex.overrides.append((re.compile(r'(interface::)?build_operator_tree'), build_stub))
        ex.overrides.append((re.compile(r'(token::)?tokenize'), tokenize_stub))
        ex.overrides.append((re.compile(r'(tree::)?tokens_to_operator_tree'), tree_stub))
    subject = sstr('<any expression>') if level == 'string' else C.node(C.operator('RootNode'), [C.node(C.operator('Const', C.v_int(5)))])
    pre_pc = []
    if symbolic_subject and level == 'string':
        # the expression text itself is symbolic (2 free chars): an entry point that looks at the text instead of delegating (a "fast path") shows here
        sc = [z3.BitVec('subj%d' % i, 32) for i in range(2)]
        pre_pc = [valid_scalar(x) for x in sc]
        subject = SStr([Int(x, False) for x in sc])
    ctxv = C.hashmap_context(variables=[('k', C.v_int(z3.BitVec('ctx_k', 64)))], disabled=z3.Bool('ctx_dis'))

    def mkargs(st):
        s = ref_to(st, subject)
        holder['s'] = s
        if form == 'nocontext':
            return [s]
        c = ref_to(st, ctxv, mut=(form == 'ctx_mut'))
        holder['c'] = c
        return [s, c]
    t0 = time.time()
    ex2, outs = C.run(body, mkargs, ex=ex, pc=pre_pc)
    res.exec_s += time.time() - t0
    res.feas_queries += ex.nq
    res.bodies |= ex.bodies_used
    res.models |= ex.models_used
    res.paths += len(outs)
    for o in outs:
        res.nontrivial_paths += 1
        why = None
        claim = z3.BoolVal(True)
        evlog = [e for e in o.log if e[0] != 'build']
        blog = [e for e in o.log if e[0] == 'build']
        evnotes = [n for n in o.state.notes if n[0] not in ('BUILT', 'BUILDERR', 'TOKENIZED')]
        bnotes = [n for n in o.state.notes if n[0] in ('BUILT', 'BUILDERR')]
        via_build = bool(blog)
        want_stub = stub_name if not via_build else 'Node::' + stub_name
        if o.kind != 'return':
            why = 'panic: %s' % o.value
        elif via_build and (len(blog) != 1 or o.log[0][0] != 'build' or not (isinstance(blog[0][1], Ref) and blog[0][1].cell.id == holder['s'].cell.id)):
            why = 'the string is precompiled %d times / not first / another string is precompiled' % len(blog)
        elif via_build and bnotes[0][0] == 'BUILDERR':
            if evlog:
                why = 'evaluates although precompilation failed'
            else:
                claim = equal_term(o.value, err(build_err))
                verdict, model = pr.prove('%s path (build error)' % name, o.pc, claim)
                if verdict == 'sat':
                    res.sat.append(dict(key='entry-point %s' % name, entry=name, level=level, form=form, typ=typ, stub_outcome='ERR', stub_value=None,
                                        why='a precompilation error is not returned unchanged', witness='%s: precompilation error not returned unchanged' % name))
                continue
        elif len(evlog) != 1:
            why = 'evaluator called %d times' % len(evlog)
        else:
            cname, a0, a1, fresh = evlog[0]
            if cname != want_stub:
                why = 'delegates to %s, expected %s' % (cname, want_stub)
            elif via_build and not identical(ex.deref_all(a0), built_tree):
                why = 'evaluator called on a tree that is not the precompiled one'
            elif not via_build and not (isinstance(a0, Ref) and a0.cell.id == holder['s'].cell.id):
                why = 'evaluator called on a different string/tree'
            elif form == 'nocontext' and not fresh:
                why = 'context-free form does not evaluate in a fresh default HashMapContext'
            elif form != 'nocontext' and not (isinstance(a1, Ref) and a1.cell.id == holder['c'].cell.id):
                why = 'evaluator called with a different context'
            else:
                tag, r = evnotes[0]
                want = r if tag.startswith('ERR') else project(C, typ, tag, r.fields[0])
                claim = equal_term(o.value, want)
                # state that outlives the call (thread-locals): inductive invariant "holds a fresh default context" — assumed at entry (lazy
                # initialisation), must hold again at exit, otherwise the next call does not evaluate in a fresh context
                for kname, cid in getattr(o.state, 'tls', {}).items():
                    cell = [a for a in o.state.anchors if a.id == cid]
                    inner = cell[0].val if cell else None
                    if isinstance(inner, Adt) and inner.ty == 'RefCell':
                        inner = inner.fields[0]
                    if not cell or not is_fresh_default_context(ex, inner):
                        why = 'state kept in a thread-local (%s) is not a fresh context when the entry point returns' % kname[:60]
        if why:
            claim = z3.BoolVal(False)
        from shapes import INT_POOL, FLOAT_POOL
        div = [[z3.BitVec('hv_i', 64) == z3.BitVecVal(x, 64)] for x in INT_POOL] + [[z3.FP('hv_f', F64) == models.fp_from_py(x)] for x in FLOAT_POOL[:8]]
        verdict, model = pr.prove('%s path' % name, o.pc, claim, diversify=div)
        for mdl in ([model] + list(pr.extra_models)) if verdict == 'sat' else []:
            tag = evnotes[0][0] if evnotes else '?'
            stub_val = None
            if evnotes and not tag.startswith('ERR'):
                try:
                    stub_val = render_value(C.meta, evnotes[0][1].fields[0], mdl)
                except Exception:
                    stub_val = None
            res.sat.append(dict(key='entry-point %s' % name, entry=name, level=level, form=form, typ=typ, stub_outcome=tag, stub_value=stub_val,
                                why=why or 'result is not the projection of the evaluator\'s result',
                                witness='%s with evaluator outcome %s: %s' % (name, tag, why or 'wrong projection')))
    if len(res.samples) < 1 and outs:
        res.samples.append(dict(entry=name, paths=len(outs), delegate=stub_name, outcomes=[n[0] for o in outs for n in o.state.notes[:2]]))


def unit_compose(u, res):
    """eval_with_context / eval_with_context_mut / build_operator_tree = tokenize ; tokens_to_operator_tree ; Node::eval_with_context[_mut]"""
    _, fname, timeout_ms, seed = u
    C = ctx()
    body = C.p.find_free(fname)
    pr = checklib.Prover(res, timeout_ms, CVC5_RATE[0], random.Random(zlib.crc32(repr(u).encode()) ^ checklib.env_seed()))
    ex = C.new_exec()
    holder = {}
    marker_tokens = VecV([C.token('Identifier', sstr('marker'))])
    marker_node = C.node(C.operator('RootNode'), [C.node(C.operator('Const', C.v_int(424242)))])

    def two_way(ex_, st, name):
        sel = z3.Bool(name + '_ok')
        return ex_.branch(st, [(sel, 'OK'), (z3.Not(sel), 'ERR')])

    def tok_stub(ex_, st, c, args):
        tag = two_way(ex_, st, 'tokenize')
        st.log.append(('tokenize', args[0]))
        st.notes.append(('tokenize', tag))
        if tag == 'ERR':
            return err(Adt('EvalexprError', C.VI('EvalexprError', 'CustomMessage'), [sstr('tokenize failed')]))
        return ok(copy_value(marker_tokens))

    def tree_stub(ex_, st, c, args):
        tag = two_way(ex_, st, 'tree')
        st.log.append(('tree', copy_value(args[0])))
        st.notes.append(('tree', tag))
        if tag == 'ERR':
            return err(Adt('EvalexprError', C.VI('EvalexprError', 'CustomMessage'), [sstr('tree failed')]))
        return ok(copy_value(marker_node))

    def eval_stub(ex_, st, c, args):
        tag = two_way(ex_, st, 'eval')
        st.log.append((c, copy_value(ex_.deref_all(args[0])), args[1]))
        st.notes.append(('eval', tag))
        if tag == 'ERR':
            return err(Adt('EvalexprError', C.VI('EvalexprError', 'CustomMessage'), [sstr('eval failed')]))
        return ok(C.v_int(z3.BitVec('eval_result', 64)))
    ex.overrides.append((re.compile(r'(token::)?tokenize'), tok_stub))
    ex.overrides.append((re.compile(r'(tree::)?tokens_to_operator_tree'), tree_stub))
    ex.overrides.append((re.compile(r'Node::eval_with_context(_mut)?'), eval_stub))
    subject = sstr('<any expression>')
    ctxv = C.hashmap_context()

    def mkargs(st):
        s = ref_to(st, subject)
        holder['s'] = s
        if fname == 'build_operator_tree':
            return [s]
        c = ref_to(st, ctxv, mut=fname.endswith('_mut'))
        holder['c'] = c
        return [s, c]
    ex2, outs = C.run(body, mkargs, ex=ex)
    res.feas_queries += ex.nq
    res.bodies |= ex.bodies_used
    res.models |= ex.models_used
    res.paths += len(outs)
    for o in outs:
        res.nontrivial_paths += 1
        res.obligations += 1
        why = None
        steps = [e[0] for e in o.log]
        tags = dict((n[0], n[1]) for n in o.state.notes)
        want_eval = None if fname == 'build_operator_tree' else ('Node::eval_with_context_mut' if fname.endswith('_mut') else 'Node::eval_with_context')
        if o.kind != 'return':
            why = 'panic'
        elif not steps or steps[0] != 'tokenize' or not (isinstance(o.log[0][1], Ref) and o.log[0][1].cell.id == holder['s'].cell.id):
            why = 'does not start by tokenizing the given string'
        elif tags['tokenize'] == 'ERR':
            if len(steps) != 1 or o.value.variant != 1 or o.value.fields[0].fields[0].concrete() != 'tokenize failed':
                why = 'tokenizer error is not returned unchanged'
        elif len(steps) < 2 or steps[1] != 'tree' or not identical(o.log[1][1], marker_tokens):
            why = 'tree builder not called on the tokenizer output'
        elif tags['tree'] == 'ERR':
            if len(steps) != 2 or o.value.variant != 1 or o.value.fields[0].fields[0].concrete() != 'tree failed':
                why = 'tree-builder error is not returned unchanged'
        elif want_eval is None:
            if len(steps) != 2 or o.value.variant != 0 or not identical(o.value.fields[0], marker_node):
                why = 'built tree is not returned'
        elif len(steps) != 3 or steps[2] != want_eval or not identical(o.log[2][1], marker_node) or \
                not (isinstance(o.log[2][2], Ref) and o.log[2][2].cell.id == holder['c'].cell.id):
            why = 'built tree is not evaluated once with %s and the caller\'s context' % want_eval
        elif tags['eval'] == 'ERR':
            if o.value.variant != 1 or o.value.fields[0].fields[0].concrete() != 'eval failed':
                why = 'evaluation error is not returned unchanged'
        elif o.value.variant != 0 or not identical(o.value.fields[0], C.v_int(z3.BitVec('eval_result', 64))):
            why = 'evaluation result is not returned unchanged'
        if why is None:
            res.discharged += 1
            continue
        feas, model = pr.feasible(o.pc)
        if feas is None:
            res.unknown.append(fname)
        elif not feas:
            res.discharged += 1
        else:
            res.sat.append(dict(key='composition %s' % fname, entry=fname, compose=True, why=why, stage_outcomes=tags, witness='%s with stage outcomes %s: %s' % (fname, tags, why)))
    if len(res.samples) < 1:
        res.samples.append(dict(entry=fname, paths=len(outs), stages=['tokenize', 'tokens_to_operator_tree', 'Node::eval_with_context[_mut]']))


# ---------------------------------------------------------------- replay: realise the stub outcome as a concrete expression
REALISE = {'Int': ('7', ('Int', 7)), 'Float': ('2.5', ('Float', 0x4004000000000000)), 'Boolean': ('true', ('Boolean', True)), 'String': ('"ab"', ('String', 'ab')),
           'Tuple': ('(1, "a")', ('Tuple', [('Int', 1), ('String', 'a')])), 'Empty': ('()', ('Empty',)), 'ERR': ('missing_variable', None),
           'Tuple0': ('et', ('Tuple', [])), 'String0': ('""', ('String', '')),
           '?': ('x = 1; x', ('Int', 1))}


ERR_LIT = {'Int': '7', 'String': '"ab"', 'Boolean': 'true', 'Float': '2.5'}


def replay_ce(ce):
    """compare the entry point natively with the projection of the untyped evaluator on a realising expression; also on a program with
    an assignment (the context-free and _mut forms must evaluate it; the immutable forms must fail with ContextNotMutable)"""
    if ce.get('compose'):
        return replay_compose(ce)
    name, level, form, typ = ce['entry'], ce['level'], ce['form'], ce['typ']
    details = []
    bad = False
    exprs = [REALISE.get(ce['stub_outcome'], REALISE['?'])[0]] + literal_for(ce.get('stub_value')) + ['a = 1; a + 1', 'n = 0; n += 1; n', '(3, 4)', '1 +', 'k += 1; k', 'f(1)', 'k = k * 2; f(k)', 'f(2.5)',
             'k += 1; "s"', 'k += 1; true', 'k += 1; (k, k)', 'k += 1;', '"x" = 5; x + 1', '("y") = 2; y * 2', '5 = 3', '"k" += 1; k', '1; "z" = 1.5; z',
             # texts that std parsers accept but the expression language treats differently
             'fl = 2', 'k = 2.5', 'k = "s"; 1.5', 'fl += 1; fl = true'] + ['g_%s(%s)' % (t, ERR_LIT[pk]) for t in TYPES for pk in ERR_PAYLOADS[t]] + [
             '+7', '-9223372036854775808', ' 7 ', '007', '1e3', '.5', '5.', 'inf', 'NaN', 'TRUE', 'True', '0x10', '1_000', '+1.5', 't', '']
    cx = dict(vars=[('k', ('Int', 1)), ('et', ('Tuple', [])), ('fl', ('Float', 0x3ff8000000000000))], funcs=[('f', 'log')] + [('g_%s' % t, 'expect:%s' % t) for t in TYPES])
    for prof in ('dev', 'release'):
        for expr in exprs:
            # reference: the untyped evaluator with an explicit context; for the context-free forms an explicitly created empty HashMapContext
            base_entry = {'ctx': 'eval_with_context', 'ctx_mut': 'eval_with_context_mut', 'nocontext': 'eval_with_context_mut'}[form]
            e_base = base_entry if level == 'string' else 'node:' + base_entry
            bare = name.replace('Node::', '')
            e_wrap = bare if level == 'string' else (('node:' if form != 'nocontext' else 'node0:') + bare)
            cxb = cx if form != 'nocontext' else {}
            text = replay.case_text('b', e_base, expr, **cxb) + replay.case_text('w', e_wrap, expr, **cx)
            out = replay.run_cases(text, prof)
            b, w = out['b'], out['w']
            rb = b.get('result') or b.get('build')
            rw = w.get('result') or w.get('build')
            want = native_projection(typ, rb)
            okk = same_native(rw, want) and (form == 'nocontext' or (b.get('vars') == w.get('vars') and b.get('log') == w.get('log')))
            if not okk:
                details.append('%s: `%s`: %s -> %s ; %s -> %s ; expected projection %s' % (prof, expr, e_base, rb, e_wrap, rw, want))
                bad = True
    if form == 'nocontext':
        # histories on one thread: whatever earlier context-free evaluations did (assign and succeed, assign and fail), a later one starts from
        # a fresh empty context: reads of their variables are unknown, and a variable may take a value of another type
        bare = name.replace('Node::', '')
        e_wrap = bare if level == 'string' else 'node0:' + bare
        poison = ['zq = 5; zq', 'zq = 5; yq = zq * 2; 1 / 0', 'wq = "s"; missing_fn(1)', 'vq = (1, 2); vq = 1', 'uq = true; uq + 1']
        probes = [('zq', 'VariableIdentifierNotFound'), ('yq', 'VariableIdentifierNotFound'), ('wq', 'VariableIdentifierNotFound'), ('uq', 'VariableIdentifierNotFound'),
                  ('zq = 2.5; zq', None), ('wq = 7; wq', None), ('vq = "t"; vq', None), ('uq = 1; uq', None)]
        for prof in ('dev', 'release'):
            text = ''.join(replay.case_text('p%d' % i, e_wrap, p_) for i, p_ in enumerate(poison))
            text += ''.join(replay.case_text('q%d' % i, e_wrap, q) for i, (q, _) in enumerate(probes))
            text += ''.join(replay.case_text('r%d' % i, 'eval' if level == 'string' else 'node0:eval', q) for i, (q, _) in enumerate(probes))
            out = replay.run_cases(text, prof)
            # reference: the same probes through the untyped context-free form *before* any poisoning cannot be had in the same process, so the
            # reference is the specification: unknown-variable errors for reads, and for the writes the projection of a fresh evaluation
            fresh = replay.run_cases(''.join(replay.case_text('f%d' % i, 'eval_with_context_mut', q) for i, (q, _) in enumerate(probes)), prof)
            for i, (q, experr) in enumerate(probes):
                got = out['q%d' % i].get('result')
                ref = native_projection(typ, fresh['f%d' % i].get('result'))
                if experr is not None:
                    okk = bool(got and got[0] == 'Err' and got[1] == experr)
                else:
                    okk = same_native(got, ref)
                if not okk:
                    bad = True
                    details.append('%s: after %d earlier context-free evaluations on the thread, `%s` through %s -> %s, in a fresh context %s' % (prof, len(poison), q, e_wrap, got, ref))
    if not bad and form == 'nocontext' and str(ce.get('why', '')).startswith('evaluator called'):
        # repeated evaluation inside a context-free form happens in a fresh context without user functions: every successful program
        # writes each variable before reading it, so a second run is indistinguishable -- the step property is violated, the observable
        # behaviour is not
        return 'benign', ['repeated evaluation in a fresh context is not observable through this entry point']
    return ('reproduced' if bad else 'not_reproduced'), details or ['wrapper agrees with the projection on all realising expressions']


def literal_for(v):
    """source expressions that evaluate to the stub's concrete value (so that the native run sees the solver's witness)"""
    if not v:
        return []
    v = tuple(v) if isinstance(v, list) else v
    try:
        if v[0] == 'Int' and v[1] is not None:
            n = v[1]
            if n >= 0:
                return [str(n), '%d + 0' % n]
            return ['-%d' % -n] if n > -2 ** 63 else ['-9223372036854775807 - 1']
        if v[0] == 'Float' and isinstance(v[1], int):
            import struct
            x = struct.unpack('<d', struct.pack('<Q', v[1]))[0]
            if x == x and x not in (float('inf'), float('-inf')):
                return [repr(abs(x)) if x >= 0 and not str(x).startswith('-') else '-' + repr(abs(x))]
            return ['1.0 / 0.0' if x > 0 else '-1.0 / 0.0'] if x == x else ['0.0 / 0.0']
        if v[0] == 'Boolean':
            return ['true' if v[1] else 'false']
    except Exception:
        pass
    return []


def native_projection(typ, r):
    if r is None:
        return None
    if r[0] == 'Err':
        return ('Err', r[1], r[2])
    v = r[1]
    if typ is None:
        return ('Ok', v)
    kind = v[0]
    if kind in ACCEPTS[typ]:
        if typ == 'number' and kind == 'Int':
            import struct
            return ('Ok', ('Float', struct.unpack('<Q', struct.pack('<d', float(v[1])))[0]))
        return ('Ok', v)
    return ('Err', EXPECTED_ERR[typ], v)


def same_native(got, want):
    if got is None or want is None:
        return got == want
    if want[0] == 'Ok':
        return got[0] == 'Ok' and got[1] == want[1]
    return got[0] == 'Err' and got[1] == want[1] and (want[2] is None or got[2] == want[2])


def replay_compose(ce):
    details = []
    bad = False
    for prof in ('dev', 'release'):
        cx = dict(vars=[('k', ('Int', 1))], funcs=[('f', 'log'), ('g', 'log')]) if ce['entry'] != 'build_operator_tree' else {}
        for expr in ['1 + 2', '1 +', '(', '"', 'a = 1', 'x', 'f(1)', 'f(1); a = 2', 'a = f(k); g(a); a', 'f(1); g(2); 1 / 0', 'k += f(2); k', 'f(1) + missing', 'g(f(1)); b = 1; b = "s"',
                     'f(k); k = 5; f(k)']:
            text = replay.case_text('s', ce['entry'] if ce['entry'] != 'build_operator_tree' else 'build', expr, **cx) + \
                replay.case_text('t', 'node:' + ce['entry'] if ce['entry'] != 'build_operator_tree' else 'build', expr, **cx)
            out = replay.run_cases(text, prof)
            s, t = out['s'], out['t']
            rs = s.get('result') or s.get('build') or s.get('shape')
            rt = t.get('result') or t.get('build') or t.get('shape')
            # same outcome, same final variables, same sequence of user-function calls (an entry point that evaluates twice shows here)
            if rs != rt or s.get('vars') != t.get('vars') or s.get('log') != t.get('log'):
                details.append('%s: `%s`: string form %s vars %s calls %s; precompiled form %s vars %s calls %s' % (prof, expr, rs, s.get('vars'), s.get('log'), rt, t.get('vars'), t.get('log')))
                bad = True
    return ('reproduced' if bad else 'not_reproduced'), details or ['string-level and precompiled forms agree on the probe expressions']


def main():
    t0 = time.time()
    tier = checklib.env_tier()
    seed = checklib.env_seed()
    CVC5_RATE[0] = 0.05 if tier == 'quick' else 0.5
    timeout_ms = 60000 if tier == 'quick' else 600000
    frontend.load(overflow_checks=True)
    C = ctx()
    ws = wrappers(C)
    units = [('wrapper', w[0], timeout_ms, seed) for w in ws]
    units += [('wrapper', w[0], timeout_ms, seed, 'symbolic subject') for w in ws if w[4] == 'string']
    units += [('compose', f, timeout_ms, seed) for f in ('eval_with_context', 'eval_with_context_mut', 'build_operator_tree')]
    results = checklib.run_units(checklib.safe_worker(unit), units)
    # determinism clause: structural scan of the crate for hidden state (reported as an assumption check, not a solver verdict)
    statics = [b.sname for b in C.p.bodies if b.header.startswith('static ')] if hasattr(C.p.bodies[0], 'header') else []
    src_has_state = subprocess_grep()
    checklib.finish(PID, results, t0=t0, replay_fn=replay_ce, exhaustive=True,
                    rule='every entry point: %d wrappers (string level and tree level x {untyped, 7 typed} x {&context, &mut context, context-free}) + 3 compositions; the delegate '
                         'evaluator is a havoc stub whose result ranges over Ok(each of the 6 value types, free payload) and Err; one obligation per path: called exactly once, the '
                         'right evaluator, on the caller\'s string/tree and context (fresh default HashMapContext for context-free forms), result = projection' % len(ws),
                    explanation='modular bounded symbolic verification: unbounded in the expression and the context because the evaluator is replaced by an arbitrary-result stub; the '
                                'complete finite set of entry points is covered',
                    assumptions=['repeatability ("equal context state gives equal result"): the crate has no static / interior-mutable state and calls no clock or RNG without the `rand` feature '
                                 '(structural scan of the sources: %s)' % src_has_state,
                                 'the stub returns values of 2-char strings / 2-element tuples as representatives of their type'],
                    bounds=dict(entry_points=len(ws) + 3, value_kinds=VALUE_KINDS, solver_timeout_ms=timeout_ms))


def subprocess_grep():
    import subprocess
    r = subprocess.run("grep -rnE '\\bstatic\\b|RefCell|Cell<|Mutex|RwLock|Atomic|thread_local|SystemTime|Instant::' --include=*.rs %s/src | grep -v '^.*//' | grep -v \"'static\" | wc -l" % frontend.REPO,
                       shell=True, capture_output=True, text=True)
    n = r.stdout.strip()
    return 'no occurrence of static items, interior mutability or clocks' if n == '0' else '%s suspicious occurrences' % n


if __name__ == '__main__':
    main()
