"""mirsym value model.

Scalars are z3 terms (wrapped so that signedness / floatness is known without a type
environment); aggregates are Python objects of concrete shape whose leaves are terms.
"""
import z3

F64 = z3.Float64()
RNE = z3.RNE()


class Unsupported(Exception):
    """The executor met a MIR/std construct it has no semantics for -> run is inconclusive."""


class Panic(Exception):
    def __init__(self, msg):
        Exception.__init__(self, msg)
        self.msg = msg


class _Immutable(object):
    __slots__ = ()

    def __deepcopy__(self, memo):
        return self

    def __copy__(self):
        return self


class Int(_Immutable):
    """integer / char term (bit-vector) with signedness"""
    __slots__ = ('t', 'signed')

    def __init__(self, t, signed):
        self.t = t
        self.signed = signed

    @property
    def bits(self):
        return self.t.size()

    def __repr__(self):
        return 'Int(%s)' % (z3.simplify(self.t),)


class Fl(_Immutable):
    """f64 term"""
    __slots__ = ('t',)

    def __init__(self, t):
        self.t = t

    def __repr__(self):
        return 'Fl(%s)' % (z3.simplify(self.t),)


class Opaque(_Immutable):
    """an opaque piece of text inside a string: the rendering of a number, a case-mapped string, Debug output"""
    __slots__ = ('kind', 'args')

    def __init__(self, kind, args=()):
        self.kind = kind
        self.args = tuple(args)

    def __repr__(self):
        return '<%s%r>' % (self.kind, self.args)


class FnItem(_Immutable):
    __slots__ = ('name',)

    def __init__(self, name):
        self.name = name

    def __repr__(self):
        return 'FnItem(%s)' % self.name


class PyFn(_Immutable):
    """a user function implemented by the harness: fn(ex, st, [argument reference]) -> Result value"""
    __slots__ = ('fn', 'tag')

    def __init__(self, fn, tag):
        self.fn = fn
        self.tag = tag

    def __repr__(self):
        return 'PyFn(%s)' % self.tag


class DiscrV(_Immutable):
    __slots__ = ('t',)

    def __init__(self, t):
        self.t = t


class _Uninit(_Immutable):
    def __repr__(self):
        return 'UNINIT'


UNINIT = _Uninit()


class Adt(object):
    __slots__ = ('ty', 'variant', 'fields')

    def __init__(self, ty, variant, fields=()):
        self.ty = ty
        self.variant = variant
        self.fields = list(fields)

    def __repr__(self):
        v = self.variant if isinstance(self.variant, int) else '{%s}' % z3.simplify(self.variant)
        return '%s#%s%r' % (self.ty, v, self.fields)


class VecV(object):
    """Vec<T> / [T] / [T; N]"""
    __slots__ = ('items',)

    def __init__(self, items=()):
        self.items = list(items)

    def __repr__(self):
        return 'Vec%r' % (self.items,)


class SStr(object):
    """String / str: concrete-length list of char terms (Int, 32 bit) and Opaque segments"""
    __slots__ = ('items',)

    def __init__(self, items=()):
        self.items = list(items)

    def is_plain(self):
        return all(isinstance(c, Int) for c in self.items)

    def concrete(self):
        """python str if every char is a numeral, else None"""
        out = []
        for c in self.items:
            if not isinstance(c, Int):
                return None
            t = z3.simplify(c.t)
            if not z3.is_bv_value(t):
                return None
            out.append(chr(t.as_long()))
        return ''.join(out)

    def __repr__(self):
        out = []
        for c in self.items:
            if isinstance(c, Int):
                t = z3.simplify(c.t)
                out.append(chr(t.as_long()) if z3.is_bv_value(t) else '{%s}' % t)
            else:
                out.append(repr(c))
        return 'S"' + ''.join(out) + '"'


class Cell(object):
    __slots__ = ('val', 'id', 'transparent')

    def __init__(self, val, cid, transparent=False):
        self.val = val
        self.id = cid
        self.transparent = transparent


def fold_subslices(path):
    """canonical form of a reference path through sub-slice views counted from the end (`[a:-b]`): an element of the view is the element a+i of the
    underlying vector, a view of a view is one view; so that two routes to the same place give the same path"""
    out = []
    for p in path:
        if out and out[-1][0] == 'subslice' and out[-1][3]:
            q = out[-1]
            if p[0] == 'index':
                out[-1] = ('index', q[1] + p[1])
                continue
            if p[0] == 'subslice' and p[3]:
                out[-1] = ('subslice', q[1] + p[1], q[2] + p[2], True)
                continue
        out.append(p)
    return tuple(out)


class Ref(object):
    __slots__ = ('cell', 'path', 'mut')

    def __init__(self, cell, path=(), mut=False):
        self.cell = cell
        path = tuple(path)
        if any(p[0] == 'subslice' for p in path):
            path = fold_subslices(path)
        self.path = path
        self.mut = mut

    def __repr__(self):
        return 'Ref(#%d%s)' % (self.cell.id, ''.join('.%s' % (p[1],) for p in self.path))


class BoxV(object):
    """Box<T> (also stands for its Unique / NonNull innards: projections .0 are transparent)"""
    __slots__ = ('cell',)

    def __init__(self, cell):
        self.cell = cell


class Closure(object):
    __slots__ = ('name', 'captures')

    def __init__(self, name, captures=()):
        self.name = name
        self.captures = list(captures)

    def __repr__(self):
        return 'Closure(%s)' % self.name


class HashMapV(object):
    """HashMap<String, V>: association list; keys are SStr"""
    __slots__ = ('keys', 'vals')

    def __init__(self, keys=(), vals=()):
        self.keys = list(keys)
        self.vals = list(vals)

    def __repr__(self):
        return 'Map{%s}' % ', '.join('%r: %r' % kv for kv in zip(self.keys, self.vals))


class IterV(object):
    """slice::Iter / IterMut over a VecV reached through `ref` (yields references)"""
    __slots__ = ('ref', 'pos', 'end')

    def __init__(self, ref, pos, end):
        self.ref = ref
        self.pos = pos
        self.end = end


class OwnIter(object):
    """vec::IntoIter (yields the items) / hash_map::Iter snapshot (yields tuples of refs)"""
    __slots__ = ('items', 'pos')

    def __init__(self, items, pos=0):
        self.items = list(items)
        self.pos = pos


class CharsV(object):
    __slots__ = ('ref', 'pos', 'end')

    def __init__(self, ref, pos, end):
        self.ref = ref
        self.pos = pos
        self.end = end


class PeekV(object):
    __slots__ = ('it',)

    def __init__(self, it):
        self.it = it


class AdaptV(object):
    """Map / FilterMap / Filter / Chain / FlatMap / Cloned adaptor (`cur`: the inner iterator a FlatMap is currently draining)"""
    __slots__ = ('kind', 'it', 'fn', 'cur')

    def __init__(self, kind, it, fn=None, cur=None):
        self.kind = kind
        self.it = it
        self.fn = fn
        self.cur = cur


class FmtArgs(object):
    """core::fmt::Arguments: list of pieces; a piece is a python str (literal) or ('arg', FmtArg)"""
    __slots__ = ('pieces',)

    def __init__(self, pieces):
        self.pieces = list(pieces)


class FmtArg(object):
    __slots__ = ('kind', 'ref')

    def __init__(self, kind, ref):
        self.kind = kind
        self.ref = ref


UNIT = Adt('()', 0, [])


def mkunit():
    return Adt('()', 0, [])


def bv(n, bits):
    return z3.BitVecVal(n, bits)


def usize(n):
    return Int(z3.BitVecVal(n, 64), False)


def i64v(n):
    return Int(z3.BitVecVal(n, 64), True)


def mkchar(c):
    return Int(z3.BitVecVal(ord(c), 32), False)


def sstr(py):
    return SStr([mkchar(c) for c in py])


def some(v):
    return Adt('Option', 1, [v])


def none():
    return Adt('Option', 0, [])


def ok(v):
    return Adt('Result', 0, [v])


def err(v):
    return Adt('Result', 1, [v])


def as_bool_term(v):
    if z3.is_expr(v) and z3.is_bool(v):
        return v
    raise Unsupported('expected bool, got %r' % (v,))


def copy_value(v):
    """value copy (MIR `copy`, Clone of plain data): duplicates aggregate structure, aliases reference targets"""
    if isinstance(v, Adt):
        return Adt(v.ty, v.variant, [copy_value(f) for f in v.fields])
    if isinstance(v, VecV):
        return VecV([copy_value(f) for f in v.items])
    if isinstance(v, SStr):
        return SStr(v.items)
    if isinstance(v, HashMapV):
        return HashMapV([copy_value(k) for k in v.keys], [copy_value(x) for x in v.vals])
    if isinstance(v, CharsV):
        return CharsV(v.ref, v.pos, v.end)
    if isinstance(v, IterV):
        return IterV(v.ref, v.pos, v.end)
    if isinstance(v, OwnIter):
        return OwnIter([copy_value(x) for x in v.items], v.pos)
    if isinstance(v, PeekV):
        return PeekV(copy_value(v.it))
    if isinstance(v, AdaptV):
        return AdaptV(v.kind, copy_value(v.it), v.fn, copy_value(v.cur))
    if isinstance(v, Closure):
        return Closure(v.name, [copy_value(c) for c in v.captures])
    if isinstance(v, FmtArgs):
        return FmtArgs(v.pieces)
    return v


WS_RANGES = [(0x9, 0xd), (0x20, 0x20), (0x85, 0x85), (0xa0, 0xa0), (0x1680, 0x1680), (0x2000, 0x200a), (0x2028, 0x2029),
             (0x202f, 0x202f), (0x205f, 0x205f), (0x3000, 0x3000)]


def is_ws(t):
    return z3.Or(*[(t == lo) if lo == hi else z3.And(z3.UGE(t, lo), z3.ULE(t, hi)) for lo, hi in WS_RANGES])


def valid_scalar(t):
    return z3.And(z3.ULE(t, 0x10ffff), z3.Or(z3.ULT(t, 0xd800), z3.UGT(t, 0xdfff)))


def utf8_width(t):
    """byte length of the UTF-8 encoding of char term t (64-bit term)"""
    return z3.If(z3.ULT(t, 0x80), bv(1, 64), z3.If(z3.ULT(t, 0x800), bv(2, 64), z3.If(z3.ULT(t, 0x10000), bv(3, 64), bv(4, 64))))
