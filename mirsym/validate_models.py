"""Validation of the character / number-parsing models against the real std (DESIGN 3.6): exhaustive over all Unicode scalars for
is_whitespace and UTF-8 widths; exhaustive over all strings of length <= 3 (plus a seed-chosen sample of length 4..6) over the
alphabet that matters for the accept languages of f64::from_str, i64::from_str, i64::from_str_radix(16) and bool::from_str."""
import sys, os, subprocess, itertools, random, struct, time
import z3
import frontend, replay, models
from values import WS_RANGES, is_ws, utf8_width

ALPHA = '019+-.eEinfatyxXNT_ '


def main():
    t0 = time.time()
    exe = replay.build('release')
    out = subprocess.run([exe, '--charmodel'], capture_output=True, text=True).stdout.split('\n')
    ws_native = set(int(x, 16) for x in out[0].split(' ')[1].split(','))
    ws_model = set(c for lo, hi in WS_RANGES for c in range(lo, hi + 1))
    bad = []
    if ws_native != ws_model:
        bad.append('is_whitespace model differs: native-only %s model-only %s' % (sorted(ws_native - ws_model), sorted(ws_model - ws_native)))
    firsts = [int(x, 16) for x in out[1].split(' ')[1:]]
    if firsts != [0, 0x80, 0x800, 0x10000]:
        bad.append('UTF-8 width thresholds differ: %s' % firsts)
    strings = [''.join(s) for n in range(0, 4) for s in itertools.product(ALPHA, repeat=n)]
    rng = random.Random(int(os.environ.get('VERIF_SEED', '0') or 0))
    for n in (4, 5, 6):
        strings += [''.join(rng.choice(ALPHA) for _ in range(n)) for _ in range(1500)]
    strings += ['inf', 'infinity', 'nan', 'NaN', 'INFINITY', '+inf', '-nan', '1e5', '1E-5', '.5', '5.', '1.5e+3', '0x10', '9223372036854775807', '9223372036854775808',
                '-9223372036854775808', '-9223372036854775809', '7fffffffffffffff', '8000000000000000', '-8000000000000000', 'true', 'false', 'True']
    inp = '\n'.join(replay.hx(s) for s in strings) + '\n'
    res = subprocess.run([exe, '--parsetable'], input=inp, capture_output=True, text=True).stdout.strip().split('\n')
    assert len(res) == len(strings), (len(res), len(strings))
    import multiprocessing as mp
    pairs = list(zip(strings, res))
    chunks = [pairs[i::32] for i in range(32)]
    with mp.Pool(min(16, os.cpu_count() or 4)) as pool:
        outs = pool.map(check_chunk, chunks)
    nchecked = sum(n for n, b in outs)
    for n, b in outs:
        bad.extend(b)
    print('model validation: %d scalars (whitespace, UTF-8 width), %d strings (f64/i64/hex/bool parsing): %d disagreements, %.1fs' % (0x110000 - 0x800, nchecked, len(bad), time.time() - t0))
    for b_ in bad[:20]:
        print('  ' + b_)
    return 1 if bad else 0


def check_chunk(pairs):
    bad = []
    nchecked = 0
    for s, line in pairs:
        _, f, i, h, b = line.split(' ')
        chars = [z3.BitVecVal(ord(c), 32) for c in s]
        acc = z3.is_true(z3.simplify(models.f64_accepts(chars))) if chars else False
        if acc != (f != '-'):
            bad.append('f64 accept language differs on %r: native %s model %s' % (s, f != '-', acc))
        for radix, nat in ((10, i), (16, h)):
            valid, fits, val = models.int_parse(chars, radix) if chars else (z3.BoolVal(False), z3.BoolVal(False), z3.BitVecVal(0, 64))
            okm = z3.is_true(z3.simplify(z3.And(valid, fits)))
            if okm != (nat != '-'):
                bad.append('i64 radix %d accept differs on %r: native %s model %s' % (radix, s, nat, okm))
            elif okm and z3.simplify(val).as_signed_long() != int(nat):
                bad.append('i64 radix %d value differs on %r: native %s model %s' % (radix, s, nat, z3.simplify(val)))
        if (b != '-') != (s in ('true', 'false')):
            bad.append('bool parse differs on %r' % s)
        nchecked += 1
    return nchecked, bad


if __name__ == '__main__':
    sys.exit(main())
