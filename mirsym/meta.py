"""Spike: ADT layouts and impl table from rustdoc JSON."""
import json, re

def ty_name(t):
    if t is None: return None
    if 'primitive' in t: return t['primitive']
    if 'resolved_path' in t: return t['resolved_path']['path'].split('::')[-1]
    if 'generic' in t: return t['generic']
    if 'borrowed_ref' in t: return '&' + (ty_name(t['borrowed_ref']['type']) or '?')
    if 'qualified_path' in t:
        q = t['qualified_path']
        return '<%s as %s>::%s' % (ty_name(q['self_type']), (q.get('trait') or {}).get('path', '?').split('::')[-1], q['name'])
    if 'tuple' in t: return '(' + ','.join(ty_name(x) or '?' for x in t['tuple']) + ')'
    if 'slice' in t: return '[' + (ty_name(t['slice']) or '?') + ']'
    return json.dumps(t)[:40]

class Meta:
    def __init__(self, path):
        d = json.load(open(path))
        self.idx = idx = d['index']
        self.enums = {}      # name -> [(variant name, [field names])]
        self.structs = {}    # name -> [field names]
        self.impls = []      # dict(trait, for, file, line, col, methods:set)
        self.trait_methods = {}  # trait -> set(methods with default body)
        for k, v in idx.items():
            inner = v['inner']
            if 'enum' in inner:
                vs = []
                for vid in inner['enum']['variants']:
                    vv = idx[str(vid)]
                    kind = vv['inner']['variant']['kind']
                    if kind == 'plain': fields = []
                    elif 'tuple' in kind: fields = [str(i) for i in range(len(kind['tuple']))]
                    else: fields = [idx[str(f)]['name'] for f in kind['struct']['fields']]
                    vs.append((vv['name'], fields))
                self.enums[v['name']] = vs
            elif 'struct' in inner:
                kind = inner['struct']['kind']
                if kind == 'unit': fields = []
                elif 'tuple' in kind: fields = [str(i) for i in range(len(kind['tuple']))]
                else: fields = [idx[str(f)]['name'] for f in kind['plain']['fields']]
                self.structs[v['name']] = fields
            elif 'impl' in inner:
                im = inner['impl']
                if not v.get('span'): continue
                methods = set()
                for it in im['items']:
                    iv = idx.get(str(it))
                    if iv and 'function' in iv['inner']:
                        methods.add(iv['name'])
                self.impls.append(dict(trait=(im['trait']['path'].split('::')[-1] if im.get('trait') else None),
                                       for_=ty_name(im['for']), file=v['span']['filename'],
                                       line=v['span']['begin'][0], col=v['span']['begin'][1], methods=methods,
                                       blanket=bool(im.get('blanket_impl')),
                                       generic_for='generic' in im['for']))
            elif 'trait' in inner:
                ms = set()
                for it in inner['trait']['items']:
                    iv = idx.get(str(it))
                    if iv and 'function' in iv['inner'] and iv['inner']['function'].get('has_body'):
                        ms.add(iv['name'])
                self.trait_methods[v['name']] = ms

    def variant_index(self, enum, variant):
        for i, (n, _) in enumerate(self.enums[enum]):
            if n == variant: return i
        raise KeyError((enum, variant))

if __name__ == '__main__':
    import sys
    m = Meta(sys.argv[1])
    print(len(m.enums), 'enums', len(m.structs), 'structs', len(m.impls), 'impls')
    print(m.enums['Value'])
    print(m.structs['Node'], m.structs['HashMapContext'])
    for im in m.impls:
        if im['trait'] in ('EvalexprInt', 'Context', 'ContextWithMutableVariables', None) and im['methods']:
            print(im['trait'], im['for_'], im['file'], im['line'], im['col'], sorted(im['methods'])[:5])
    print(m.trait_methods.get('ContextWithMutableVariables'))
