"""Front end: regenerate MIR + rustdoc JSON from /repo's working tree and load them as a Program."""
import os, re, sys, json, hashlib, subprocess, time, pickle
from mirparse import parse_mir, skip_balanced
from meta import Meta

REPO = os.environ.get('VERIF_REPO', '/repo')
VERIF = os.path.dirname(os.path.dirname(os.path.abspath(__file__)))
WORK = os.environ.get('VERIF_WORK', os.path.join(VERIF, '.work'))


def src_hash(repo=REPO):
    h = hashlib.sha256()
    root = os.path.join(repo, 'src')
    for d, _, fs in sorted(os.walk(root)):
        for f in sorted(fs):
            if f.endswith('.rs'):
                p = os.path.join(d, f)
                h.update(os.path.relpath(p, repo).encode())
                h.update(open(p, 'rb').read())
    return h.hexdigest()[:16]


def _run(cmd, cwd):
    env = dict(os.environ)
    env['CARGO_NET_OFFLINE'] = 'true'
    r = subprocess.run(cmd, cwd=cwd, capture_output=True, text=True, env=env)
    if r.returncode != 0:
        sys.stderr.write('front end command failed: %s\n%s\n' % (' '.join(cmd), r.stderr[-4000:]))
        raise SystemExit(2)
    return r


def serde_shim():
    """serde (+derive) compiled by the nightly toolchain that dumps MIR: (rlib, deps dir). Built offline from the cargo registry cache by
    /verif/serde_shim (an empty crate depending on serde); only needed for the `serde` feature dump (C16)."""
    tdir = os.path.join(WORK, 'serde-shim-target')
    deps = os.path.join(tdir, 'debug', 'deps')

    def find():
        if os.path.isdir(deps):
            for f in sorted(os.listdir(deps)):
                if re.fullmatch(r'libserde-[0-9a-f]+\.rlib', f):
                    return os.path.join(deps, f)
        return None
    r = find()
    if r is None:
        env = dict(os.environ, CARGO_NET_OFFLINE='true')
        env.pop('RUSTUP_TOOLCHAIN', None)
        p = subprocess.run(['cargo', '+nightly', 'build', '--offline', '--target-dir', tdir], cwd=os.path.join(VERIF, 'serde_shim'), capture_output=True, text=True, env=env)
        if p.returncode != 0:
            sys.stderr.write('front end: building serde with the nightly toolchain failed:\n%s\n' % p.stderr[-3000:])
            raise SystemExit(2)
        r = find()
    if r is None:
        raise SystemExit('front end: libserde rlib not found under %s' % deps)
    return r, deps


def build(repo=REPO, overflow_checks=True, features=None):
    """returns dict(dir, mir, vmir, doc, hash); cached per source hash + flag (the cache is only a
    cache: any change to a .rs file under src/ changes the hash and forces regeneration)."""
    h = src_hash(repo)
    tag = 'on' if overflow_checks else 'off'
    d = os.path.join(WORK, 'fe', h)
    os.makedirs(d, exist_ok=True)
    ftag = ('-' + features) if features else ''
    mir = os.path.join(d, tag + ftag + '.mir')
    vmir = os.path.join(d, tag + ftag + '.vmir')
    doc = os.path.join(d, 'doc' + ftag, 'evalexpr.json')
    base = ['rustc', '+nightly', '--edition', '2021', '--crate-type', 'lib', '--crate-name', 'evalexpr', 'src/lib.rs',
            '-Zunpretty=mir', '-C', 'overflow-checks=' + tag, '-C', 'debug-assertions=' + tag, '--cap-lints', 'allow']
    fextra = []
    if features == 'serde':
        rlib, deps = serde_shim()
        fextra = ['--cfg', 'feature="serde"', '--extern', 'serde=' + rlib, '-L', 'dependency=' + deps]
        base += fextra
    elif features:
        raise SystemExit('front end: unknown feature set %r' % features)
    t0 = time.time()
    if not os.path.exists(mir):
        tmp = '%s.%d.tmp' % (mir, os.getpid())
        _run(base + ['-o', tmp], repo)
        os.rename(tmp, mir)
    if not os.path.exists(vmir):
        tmp = '%s.%d.tmp' % (vmir, os.getpid())
        _run(base + ['-Zverbose-internals', '-o', tmp], repo)
        os.rename(tmp, vmir)
    if not os.path.exists(doc):
        _run(['rustdoc', '+nightly', '--edition', '2021', '--crate-type', 'lib', '--crate-name', 'evalexpr', 'src/lib.rs',
              '-Zunstable-options', '--output-format', 'json', '--document-private-items', '--cap-lints', 'allow',
              '-o', os.path.join(d, 'doc%s.%d' % (ftag, os.getpid()))] + fextra, repo)
        if not os.path.exists(doc):
            os.makedirs(os.path.join(d, 'doc' + ftag), exist_ok=True)
            os.rename(os.path.join(d, 'doc%s.%d' % (ftag, os.getpid()), 'evalexpr.json'), doc)
    expanded = None
    if features:
        # macro-expanded source: the only place that shows the declaration order of the function-local enums of derive output (`enum __Field {..}`)
        expanded = os.path.join(d, 'expanded' + ftag + '.rs')
        if not os.path.exists(expanded):
            tmp = '%s.%d.tmp' % (expanded, os.getpid())
            _run(['rustc', '+nightly', '--edition', '2021', '--crate-type', 'lib', '--crate-name', 'evalexpr', 'src/lib.rs', '-Zunpretty=expanded', '--cap-lints', 'allow',
                  '-o', tmp] + fextra, repo)
            os.rename(tmp, expanded)
    return dict(dir=d, mir=mir, vmir=vmir, doc=doc, hash=h, seconds=time.time() - t0, overflow_checks=overflow_checks, features=features, expanded=expanded)


def strip_generics(s):
    """remove turbofish `::<...>` segments, but keep `::<impl T>` path segments"""
    out = []
    i = 0
    n = len(s)
    while i < n:
        if s.startswith('::<', i) and not s.startswith('::<impl ', i):
            i = skip_balanced(s, i + 3, '>')
            continue
        out.append(s[i])
        i += 1
    return ''.join(out)


_CL = re.compile(r'\{closure@([^{}]*?)\}')
_VCL = re.compile(r'(\w+|\{closure#\d+\})(?:<[^<>]*(?:<[^<>]*>[^<>]*)*>)?::\{closure#(\d+)\}')


def _pn(parent):
    return parent.replace('{closure#', 'closure').replace('}', '')


def disambiguate_closures(text, vtext):
    """append #N to `{closure@span}` tokens whose span is shared by several closure bodies, using the
    -Zverbose-internals dump of the same compilation (same line numbering)."""
    lines = text.split('\n')
    vlines = vtext.split('\n')
    spans = {}
    for ln in lines:
        m = re.match(r'^fn (.*?::\{closure#(\d+)\})\(_1: (?:&(?:mut )?)?\{closure@([^{}]*?)\}', ln)
        if m:
            spans.setdefault(m.group(3), []).append(m.group(1))
    amb = set(s for s, v in spans.items() if len(v) > 1)
    if not amb:
        return text, spans
    if len(lines) != len(vlines):
        raise SystemExit('front end: plain and verbose MIR dumps differ in line count')
    for i, ln in enumerate(lines):
        if '{closure@' not in ln:
            continue
        found = [s for s in _CL.findall(ln) if s in amb]
        if not found:
            continue
        m = re.match(r'^fn (?:.*::)?(\w+|\{closure#\d+\})::\{closure#(\d+)\}\(', ln)
        if m:
            ns = {'%s.%s' % (_pn(m.group(1)), m.group(2))}
        else:
            # the closure is identified by its parent function and its index in it (one macro used in two functions gives equal spans and equal indices)
            ns = set('%s.%s' % (_pn(a_), b_) for a_, b_ in _VCL.findall(vlines[i]))
        if len(ns) != 1:
            continue        # leave ambiguous; the executor reports Unsupported if it is ever needed
        n = ns.pop()
        lines[i] = _CL.sub(lambda mm: '{closure@%s#%s}' % (mm.group(1), n) if mm.group(1) in amb else mm.group(0), ln)
    return '\n'.join(lines), spans


class Program(object):
    def __deepcopy__(self, memo):
        return self

    def __init__(self, fe):
        self.fe = fe
        text = open(fe['mir']).read()
        vtext = open(fe['vmir']).read()
        text, self.closure_spans = disambiguate_closures(text, vtext)
        synth = open(os.path.join(os.path.dirname(os.path.abspath(__file__)), 'synth.mir')).read()
        self.bodies, self.stats = parse_mir(text + '\n' + synth)
        # a body the front end cannot parse completely (e.g. references to thread-local statics) is kept, marked, and makes a run inconclusive
        # only if execution actually enters it
        self.unparsed = [b.name for b in self.bodies if b.errors]
        for b in self.bodies:
            for e in b.errors[:1]:
                sys.stderr.write('MIR construct not understood in %s: %s\n' % (b.name[:80], e[:200]))
        self.meta = Meta(fe['doc'])
        # function-local enums of derive output, keyed by (owner type, enum name): variant names in declaration order
        self.local_enums = {}
        if fe.get('expanded'):
            et = open(fe['expanded']).read()
            for mm in re.finditer(r"Deserialize<'de>\s+for\s+(\w+)<", et):
                owner = mm.group(1)
                m2 = re.compile(r'enum\s+(__\w+)\s*\{([^}]*)\}').search(et, mm.end())
                nxt = re.compile(r"Deserialize<'de>\s+for\s+\w+<").search(et, mm.end())
                if m2 and (nxt is None or m2.start() < nxt.start()):
                    self.local_enums[(owner, m2.group(1))] = [v.strip() for v in m2.group(2).split(',') if v.strip()]
        # one-line constant items:  const NAME: T = const <literal>;
        self.simple_consts = {}
        for mm in re.finditer(r'^const ([A-Za-z_][A-Za-z_0-9:<> ,]*?): ([^=]+?) = const (.*);$', text, re.M):
            self.simple_consts.setdefault(mm.group(1).split('::')[-1], []).append(mm.group(3).strip())
        self.by_name = {}
        self.by_impl = {}
        for b in self.bodies:
            b.sname = strip_generics(b.name)
            self.by_name.setdefault(b.sname, []).append(b)
            m = re.search(r'<impl at ([^:]+):(\d+):(\d+): \d+:\d+>::(\w+)$', b.sname)
            if m:
                self.by_impl[(m.group(1), int(m.group(2)), int(m.group(3)), m.group(4))] = b
        self.closure_bodies = {}
        for span, names in self.closure_spans.items():
            for nm in names:
                mm_ = re.search(r'(?:^|::)(\w+|\{closure#\d+\})::\{closure#(\d+)\}$', nm)
                n = '%s.%s' % (_pn(mm_.group(1)), mm_.group(2)) if mm_ else re.search(r'\{closure#(\d+)\}$', nm).group(1)
                b = self.by_name[strip_generics(nm)][0]
                self.closure_bodies[span + '#' + n] = b
                if len(names) == 1:
                    self.closure_bodies[span] = b

    # ---- lookup
    def find_method(self, trait, for_, method):
        for im in self.meta.impls:
            if im['trait'] == trait and im['for_'] == for_:
                b = self.by_impl.get((im['file'], im['line'], im['col'], method))
                if b:
                    return b
        return None

    def find_inherent(self, ty, method):
        for im in self.meta.impls:
            if im['trait'] is None and im['for_'] == ty:
                b = self.by_impl.get((im['file'], im['line'], im['col'], method))
                if b:
                    return b
        return None

    def find_free(self, path):
        c = self.by_name.get(path)
        if c:
            return c[0]
        last = path.split('::')[-1]
        cands = [b for n, bs in self.by_name.items() for b in bs if n.split('::')[-1] == last and '<impl' not in n and '{closure' not in n]
        if len(cands) == 1:
            return cands[0]
        return None

    def trait_default(self, trait, method):
        for n, bs in self.by_name.items():
            if n == '%s::%s' % (trait, method) or n.endswith('::%s::%s' % (trait, method)):
                return bs[0]
        return None

    def body_lines(self, body):
        return getattr(body, 'span', None)

    # ---- CFG helpers (post-dominators without unwind edges)
    def _pd(self, body):
        pd = getattr(body, '_pd', None)
        if pd is not None:
            return pd
        succ = {}
        for bb, (stmts, t, cleanup) in body.blocks.items():
            k = t.kind
            a = t.args
            out = []
            if k == 'goto':
                out = [a[0]]
            elif k == 'switch':
                out = [b for _, b in a[1]]
            elif k == 'call':
                out = [a[3]['return']] if 'return' in a[3] else []
            elif k == 'drop':
                out = [a[1]['return']]
            elif k == 'assert':
                out = [a[3]['success']]
            succ[bb] = out or ['EXIT']
        succ['EXIT'] = []
        nodes = list(succ)
        pd = {n: set(nodes) for n in nodes}
        pd['EXIT'] = {'EXIT'}
        changed = True
        while changed:
            changed = False
            for n in nodes:
                if n == 'EXIT':
                    continue
                new = set.intersection(*[pd[x] for x in succ[n]]) | {n}
                if new != pd[n]:
                    pd[n] = new
                    changed = True
        body._pd = pd
        return pd

    def common_pdom(self, body, targets):
        pd = self._pd(body)
        common = set.intersection(*[pd[t] for t in targets])
        best = None
        for c in common:
            if all((o in pd[c]) for o in common):
                best = c
        return best


_CACHE = {}


def load(repo=REPO, overflow_checks=True, features=None):
    key = (repo, overflow_checks, features)
    if key not in _CACHE:
        fe = build(repo, overflow_checks, features)
        t0 = time.time()
        p = Program(fe)
        fe['parse_seconds'] = time.time() - t0
        _CACHE[key] = p
    return _CACHE[key]


if __name__ == '__main__':
    p = load()
    print('bodies', len(p.bodies), 'closures', len(p.closure_bodies), p.fe)
    for k in sorted(p.closure_bodies)[:8]:
        print(k, '->', p.closure_bodies[k].sname)
