import sys, time
import frontend
from harness import *
p = frontend.load(); C = Ctx(p)
for tmpl in sys.argv[1:]:
    tmpl = tmpl.replace('?', '\x00')
    cons=[]; chars=[]
    for i,ch in enumerate(tmpl):
        if ch=='\x00':
            v=z3.BitVec('c%d'%i,32); cons.append(valid_scalar(v)); chars.append(Int(v,False))
        else: chars.append(mkchar(ch))
    t0=time.time()
    try:
        ex,outs=C.run('tokenize', lambda st:[ref_to(st,SStr(chars))], pc=cons)
        kinds={}
        for o in outs:
            k = o.kind if o.kind=='panic' else ('Ok %d tokens'%len(o.value.fields[0].items) if o.value.variant==0 else 'Err '+error_name(p.meta,o.value.fields[0]))
            kinds[k]=kinds.get(k,0)+1
        print(repr(tmpl), len(outs),'paths %.1fs'%(time.time()-t0), kinds, 'nq',ex.nq,'tsolve %.1f'%ex.tsolve)
    except Unsupported as u:
        print(repr(tmpl),'UNSUPPORTED',u,getattr(u,'where',None))
