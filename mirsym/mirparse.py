"""Spike: parse rustc -Zunpretty=mir text into a structured form."""
import re, sys, collections

class ParseError(Exception):
    pass

def skip_balanced(s, i, close):
    """s[i] is just after an opener; return index just after the matching `close`.
    Tracks (), [], {} and <> (ignoring '->' and '=>')."""
    pairs = {'(': ')', '[': ']', '{': '}', '<': '>'}
    stack = [close]
    n = len(s)
    while i < n:
        c = s[i]
        if c == '"':
            i = skip_string(s, i)
            continue
        if c == "'" and char_lit_end(s, i):
            i = char_lit_end(s, i)
            continue
        if c == '-' and i + 1 < n and s[i + 1] == '>':
            i += 2
            continue
        if c == '=' and i + 1 < n and s[i + 1] == '>':
            i += 2
            continue
        if c in pairs:
            stack.append(pairs[c])
        elif c in ')]}>':
            if stack and stack[-1] == c:
                stack.pop()
                if not stack:
                    return i + 1
            elif c == '>':
                pass  # stray comparison; ignore
            else:
                raise ParseError('unbalanced %r at %d in %r' % (c, i, s[:200]))
        i += 1
    raise ParseError('unterminated in %r' % s[:200])

def char_lit_end(s, i):
    """if s[i:] starts a char literal like 'x' or '\\n' or '\\u{..}', return index after it, else None"""
    m = re.match(r"'(\\u\{[0-9a-fA-F]+\}|\\.|[^'\\])'", s[i:])
    return i + m.end() if m else None

def skip_string(s, i):
    assert s[i] == '"'
    i += 1
    while s[i] != '"':
        if s[i] == '\\':
            i += 1
        i += 1
    return i + 1

def split_top(s, sep=','):
    """split s on top-level sep."""
    out = []
    depth = []
    pairs = {'(': ')', '[': ']', '{': '}', '<': '>'}
    cur = []
    i = 0
    n = len(s)
    while i < n:
        c = s[i]
        if c == "'":
            j = char_lit_end(s, i)
            if j:
                cur.append(s[i:j]); i = j; continue
        if c == '"':
            j = skip_string(s, i)
            cur.append(s[i:j]); i = j; continue
        if c == '-' and i + 1 < n and s[i + 1] == '>':
            cur.append('->'); i += 2; continue
        if c == '=' and i + 1 < n and s[i + 1] == '>':
            cur.append('=>'); i += 2; continue
        if c in pairs:
            depth.append(pairs[c])
        elif depth and c == depth[-1]:
            depth.pop()
        if c == sep and not depth:
            out.append(''.join(cur).strip()); cur = []
        else:
            cur.append(c)
        i += 1
    last = ''.join(cur).strip()
    if last:
        out.append(last)
    return out

# ---------------- places / operands / rvalues ----------------
Place = collections.namedtuple('Place', 'local proj')   # proj: list of ('deref',)|('field',n,ty)|('downcast',name)|('index',local)|('constindex',n,m,fromend)

def parse_place(s):
    s = s.strip()
    p, rest = _place(s, 0)
    if rest != len(s):
        raise ParseError('trailing in place %r' % s)
    return p

def _place(s, i):
    # returns (Place, next index)
    if s[i] == '(':
        if s[i + 1] == '*':
            inner, j = _place(s, i + 2)
            if s[j] != ')':
                raise ParseError('deref close %r' % s)
            p = Place(inner.local, inner.proj + [('deref',)])
            j += 1
        else:
            inner, j = _place(s, i + 1)
            if s[j] == '.':
                m = re.match(r'\.(\d+): ', s[j:])
                if not m:
                    raise ParseError('field %r' % s[j:j+40])
                k = j + m.end()
                e = skip_balanced(s, k, ')')
                ty = s[k:e - 1]
                p = Place(inner.local, inner.proj + [('field', int(m.group(1)), ty)])
                j = e
            elif s.startswith(' as ', j):
                m = re.match(r' as ([A-Za-z_][A-Za-z_0-9]*)\)', s[j:])
                if not m:
                    # variant by index?  ( _1 as variant#3 )
                    m = re.match(r' as variant#(\d+)\)', s[j:])
                    if not m:
                        raise ParseError('downcast %r' % s[j:j+40])
                    p = Place(inner.local, inner.proj + [('downcast', int(m.group(1)))])
                else:
                    p = Place(inner.local, inner.proj + [('downcast', m.group(1))])
                j = j + m.end()
            else:
                raise ParseError('paren place %r at %d' % (s, j))
    else:
        m = re.match(r'_(\d+)', s[i:])
        if not m:
            raise ParseError('local %r' % s[i:i+40])
        p = Place(int(m.group(1)), [])
        j = i + m.end()
    # postfix indexing
    while j < len(s) and s[j] == '[':
        e = skip_balanced(s, j + 1, ']')
        inside = s[j + 1:e - 1]
        m = re.fullmatch(r'_(\d+)', inside)
        if m:
            p = Place(p.local, p.proj + [('index', int(m.group(1)))])
        else:
            m = re.fullmatch(r'(-?\d+) of (\d+)', inside)
            if m:
                p = Place(p.local, p.proj + [('constindex', int(m.group(1)), int(m.group(2)))])
            else:
                m = re.fullmatch(r'(\d*):(-?\d*)', inside) or re.fullmatch(r'(\d+)\.\.(\d+)', inside)
                if m:
                    p = Place(p.local, p.proj + [('subslice', inside)])
                else:
                    raise ParseError('index %r' % inside)
        j = e
    return p, j

Operand = collections.namedtuple('Operand', 'kind val')   # kind: copy|move|const

def parse_operand(s):
    s = s.strip()
    if s.startswith('copy '):
        return Operand('copy', parse_place(s[5:]))
    if s.startswith('move '):
        return Operand('move', parse_place(s[5:]))
    if s.startswith('const '):
        return Operand('const', s[6:].strip())
    if re.match(r'^[A-Za-z_<{]', s):
        return Operand('fnitem', s)
    raise ParseError('operand %r' % s)

BINOPS = ['Add', 'Sub', 'Mul', 'Div', 'Rem', 'BitXor', 'BitAnd', 'BitOr', 'Shl', 'Shr', 'Eq', 'Lt', 'Le', 'Ne', 'Ge', 'Gt',
          'Cmp', 'Offset', 'AddWithOverflow', 'SubWithOverflow', 'MulWithOverflow', 'AddUnchecked', 'SubUnchecked',
          'MulUnchecked', 'ShlUnchecked', 'ShrUnchecked']
UNOPS = ['Not', 'Neg', 'PtrMetadata']
NULLOPS = ['SizeOf', 'AlignOf', 'OffsetOf', 'UbChecks', 'ContractChecks']

Rvalue = collections.namedtuple('Rvalue', 'kind args')

def parse_rvalue(s):
    s = s.strip()
    # references
    if s.startswith('&raw const (fake) '):
        return Rvalue('ref', ('raw const', parse_place(s[len('&raw const (fake) '):])))
    m = re.match(r'&(mut |raw const |raw mut |fake shallow |fake )?', s)
    if s.startswith('&') and not s.startswith('&&'):
        kind = (m.group(1) or '').strip()
        return Rvalue('ref', (kind, parse_place(s[m.end():])))
    if s.startswith('&raw const (fake) '):
        return Rvalue('ref', ('raw const', parse_place(s[len('&raw const (fake) '):])))
    if s.startswith('no_retag '):
        return parse_rvalue(s[len('no_retag '):])
    if s.startswith(('copy ', 'move ', 'const ')):
        # may be a cast:  OPERAND as TYPE (CastKind)
        m = re.match(r'^(.*) as (.*) \(([A-Za-z]+(?:\(.*\))?)\)$', s)
        if m and s.startswith(('copy ', 'move ')) or (m and s.startswith('const ') and m.group(3).split('(')[0] in CASTKINDS):
            try:
                op = parse_operand(m.group(1))
                return Rvalue('cast', (op, m.group(2), m.group(3)))
            except ParseError:
                pass
        return Rvalue('use', (parse_operand(s),))
    m = re.match(r'^(.*) \((PointerCoercion\(.*\))\)$', s)
    if m and re.match(r'^[A-Za-z_<]', s):
        k = top_level_as(m.group(1))
        if k is not None:
            return Rvalue('cast', (Operand('fnitem', m.group(1)[:k]), m.group(1)[k + 4:], m.group(2)))
    m = re.match(r'^discriminant\((.*)\)$', s)
    if m:
        return Rvalue('discriminant', (parse_place(m.group(1)),))
    m = re.match(r'^Len\((.*)\)$', s)
    if m:
        return Rvalue('len', (parse_place(m.group(1)),))
    m = re.match(r'^([A-Za-z]+)\((.*)\)$', s)
    if m and m.group(1) in BINOPS:
        a = split_top(m.group(2))
        return Rvalue('binop', (m.group(1), parse_operand(a[0]), parse_operand(a[1])))
    if m and m.group(1) in UNOPS:
        return Rvalue('unop', (m.group(1), parse_operand(m.group(2))))
    if m and m.group(1) in NULLOPS:
        return Rvalue('nullop', (m.group(1), m.group(2)))
    if m and m.group(1) == 'ShallowInitBox':
        a = split_top(m.group(2))
        return Rvalue('shallowinitbox', (parse_operand(a[0]), a[1]))
    if m and m.group(1) == 'CopyForDeref':
        return Rvalue('use', (Operand('copy', parse_place(m.group(2))),))
    # aggregates
    if s.startswith('[') and s.endswith(']'):
        inner = s[1:-1]
        parts = split_top(inner, ';')
        if len(parts) == 2:
            return Rvalue('repeat', (parse_operand(parts[0]), parts[1]))
        return Rvalue('array', tuple(parse_operand(x) for x in split_top(inner)))
    if s.startswith('(') and s.endswith(')'):
        inner = s[1:-1]
        items = split_top(inner)
        return Rvalue('tuple', tuple(parse_operand(x) for x in items))
    # closure aggregate: {closure@...}  or {closure@src..} [captures]
    if s.startswith('{closure@') or s.startswith('{coroutine@'):
        return Rvalue('closure', (s,))
    # ADT aggregate:  path::Variant(args) | path { f: op, .. } | path::Variant
    m = re.match(r'^(.*?) \{ (.*) \}$', s)
    if m and not m.group(1).startswith('{'):
        fields = []
        for f in split_top(m.group(2)):
            k, v = f.split(': ', 1)
            fields.append((k, parse_operand(v)))
        return Rvalue('adt_struct', (m.group(1), fields))
    if s.endswith(')'):
        # find the opening paren of the last group
        depth = 0
        for i in range(len(s) - 1, -1, -1):
            if s[i] == ')': depth += 1
            elif s[i] == '(':
                depth -= 1
                if depth == 0:
                    break
        path = s[:i]
        args = split_top(s[i + 1:-1])
        return Rvalue('adt_tuple', (path, tuple(parse_operand(a) for a in args)))
    if re.match(r'^[A-Za-z_<]', s):
        return Rvalue('adt_unit', (s,))
    raise ParseError('rvalue %r' % s)

def top_level_as(s):
    """index of the first ' as ' outside any <>, (), [] nesting"""
    depth = 0
    i = 0
    n = len(s)
    while i < n:
        c = s[i]
        if c == '-' and i + 1 < n and s[i + 1] == '>':
            i += 2; continue
        if c in '<([':
            depth += 1
        elif c in '>)]':
            depth -= 1
        elif depth == 0 and s.startswith(' as ', i):
            return i
        i += 1
    return None


CASTKINDS = {'IntToInt', 'FloatToInt', 'IntToFloat', 'FloatToFloat', 'PtrToPtr', 'FnPtrToPtr', 'Transmute',
             'PointerCoercion', 'PointerExposeProvenance', 'PointerWithExposedProvenance', 'Subtype'}

# ---------------- terminators ----------------
Term = collections.namedtuple('Term', 'kind args')

def parse_targets(s):
    """'[return: bb1, unwind: bb3]' or 'bb3' or 'unwind continue' -> dict"""
    s = s.strip()
    if s.startswith('['):
        d = {}
        for part in split_top(s[1:-1]):
            if ': ' in part:
                k, v = part.split(': ', 1)
            else:
                k, v = part.split(' ', 1)
            d[k] = v
        return d
    if s.startswith('bb'):
        return {'return': s}
    if s.startswith('unwind'):
        return {'unwind': s[len('unwind'):].strip()}
    raise ParseError('targets %r' % s)

def parse_terminator(s):
    s = s.strip().rstrip(';')
    if s == 'return': return Term('return', ())
    if s == 'unreachable': return Term('unreachable', ())
    if s == 'resume': return Term('resume', ())
    if s.startswith('unwind terminate') or s == 'terminate': return Term('terminate', ())
    m = re.match(r'^goto -> (bb\d+)$', s)
    if m: return Term('goto', (m.group(1),))
    if s.startswith('switchInt('):
        e = skip_balanced(s, len('switchInt('), ')')
        op = parse_operand(s[len('switchInt('):e - 1])
        rest = s[e:].strip()
        assert rest.startswith('-> ')
        tg = rest[3:].strip()
        arms = []
        for part in split_top(tg[1:-1]):
            k, v = part.split(': ', 1)
            arms.append((k, v))
        return Term('switch', (op, arms))
    if s.startswith('drop('):
        e = skip_balanced(s, 5, ')')
        pl = parse_place(s[5:e - 1])
        return Term('drop', (pl, parse_targets(s[e:].strip()[3:])))
    if s.startswith('assert('):
        e = skip_balanced(s, 7, ')')
        args = split_top(s[7:e - 1])
        cond = args[0]
        neg = False
        if cond.startswith('!'):
            neg = True; cond = cond[1:]
        return Term('assert', (neg, parse_operand(cond), args[1], parse_targets(s[e:].strip()[3:])))
    if s.startswith(('falseEdge', 'falseUnwind')):
        return Term('false', (s,))
    # call:  PLACE = CALLEE(ARGS) -> TARGETS
    m = re.match(r'^(.*?) = (.*)$', s)
    if m:
        dest = parse_place(m.group(1))
        rhs = m.group(2)
        i = find_call_open(rhs)
        e = skip_balanced(rhs, i + 1, ')')
        callee = rhs[:i].strip()
        args = [parse_operand(a) for a in split_top(rhs[i + 1:e - 1])]
        rest = rhs[e:].strip()
        if not rest.startswith('-> '):
            raise ParseError('call no targets %r' % s)
        targets = parse_targets(rest[3:])
        return Term('call', (dest, callee, args, targets))
    raise ParseError('terminator %r' % s)

def find_call_open(h):
    """index of the '(' that opens the argument list of 'CALLEE(ARGS) -> ...'."""
    i = 0; n = len(h)
    while i < n:
        c = h[i]
        if c == '<': i = skip_balanced(h, i + 1, '>'); continue
        if c == '{': i = skip_balanced(h, i + 1, '}'); continue
        if c == '[': i = skip_balanced(h, i + 1, ']'); continue
        if c == '(':
            e = skip_balanced(h, i + 1, ')')
            if h[e:].lstrip().startswith('->'):
                return i
            i = e; continue
        i += 1
    raise ParseError('no call parens in %r' % h)

def is_terminator_line(s):
    return (s.startswith(('goto ', 'switchInt(', 'return', 'unreachable', 'resume', 'drop(', 'assert(', 'falseEdge',
                          'falseUnwind', 'unwind terminate', 'terminate'))
            or (' -> [' in s and ' = ' in s) or s.endswith('-> unwind continue;') or re.search(r'\) -> bb\d+;$', s) is not None
            or re.search(r'\) -> \[', s) is not None or re.search(r'\) -> unwind', s) is not None)

Stmt = collections.namedtuple('Stmt', 'kind args')

def parse_statement(s):
    s = s.strip().rstrip(';')
    if s in ('nop',): return Stmt('nop', ())
    for pre in ('StorageLive(', 'StorageDead(', 'Deinit(', 'Retag(', 'PlaceMention(', 'FakeRead(', 'AscribeUserType(',
                'Coverage::', 'ConstEvalCounter', 'BackwardIncompatibleDropHint('):
        if s.startswith(pre): return Stmt('nop', ())
    m = re.match(r'^discriminant\((.*)\) = (\d+)$', s)
    if m: return Stmt('setdiscr', (parse_place(m.group(1)), int(m.group(2))))
    if s.startswith('assume('):
        return Stmt('assume', (parse_operand(s[7:-1]),))
    if s.startswith('copy_nonoverlapping('):
        return Stmt('intrinsic', (s,))
    # assignment: find top-level ' = '
    depth = 0
    i = 0
    n = len(s)
    while i < n:
        c = s[i]
        if c in '([': depth += 1
        elif c in ')]': depth -= 1
        elif c == "'" and char_lit_end(s, i): i = char_lit_end(s, i); continue
        elif c == '"': i = skip_string(s, i); continue
        elif depth == 0 and s.startswith(' = ', i):
            return Stmt('assign', (parse_place(s[:i]), parse_rvalue(s[i + 3:])))
        i += 1
    raise ParseError('statement %r' % s)

class Body:
    def __deepcopy__(self, memo):
        return self
    def __init__(self, name, header):
        self.name = name; self.header = header
        self.args = []; self.ret = None
        self.locals = {}   # n -> type string
        self.blocks = {}   # 'bbN' -> (stmts, term, cleanup)
        self.errors = []

def parse_mir(text):
    lines = text.split('\n')
    bodies = []
    i = 0
    n = len(lines)
    cur = None; blk = None; stmts = None; cleanup = False
    stats = collections.Counter()
    while i < n:
        line = lines[i]
        s = line.strip()
        i += 1
        if cur is None:
            m = re.match(r'^fn (.*)$', line)
            if m and line.rstrip().endswith('{'):
                header = line.rstrip()[3:-1].strip()
                # name = up to the top-level '(' that starts the param list: find ' -> ' from the right
                cur = Body(None, header)
                # split header into name(args) -> ret
                # find matching paren for param list: it's the last top-level (...) before ' -> ' or end
                ret = None
                h = header
                # locate top-level ' -> ' from the right that is outside brackets
                depth = 0; pos = -1
                j = len(h) - 1
                while j >= 0:
                    c = h[j]
                    if c in ')]': depth += 1
                    elif c in '([': depth -= 1
                    elif c == '>' and j > 0 and h[j - 1] == '-':
                        if depth == 0:
                            pos = j - 2
                            # keep scanning for the leftmost? we want the one right after params; take the leftmost top-level one following a ')'
                        j -= 1
                    j -= 1
                # simpler: params list ends at the ')' that balances from the first '(' after the name's generic-free prefix
                k = find_param_open(h)
                e = skip_balanced(h, k + 1, ')')
                cur.name = h[:k]
                params = h[k + 1:e - 1]
                for p in split_top(params):
                    mm = re.match(r'_(\d+): (.*)$', p)
                    if mm:
                        cur.args.append(int(mm.group(1))); cur.locals[int(mm.group(1))] = mm.group(2)
                rest = h[e:].strip()
                cur.ret = rest[3:].strip() if rest.startswith('->') else '()'
                cur.first_line = i
                bodies.append(cur)
                stats['fn'] += 1
            elif re.match(r'^const (.*): (.*?) = \{$', line.rstrip()):
                mm = re.match(r'^const (.*): (.*?) = \{$', line.rstrip())
                cur = Body(mm.group(1), line.rstrip())
                cur.ret = mm.group(2)
                cur.first_line = i
                bodies.append(cur)
                stats['promoted' if 'promoted[' in mm.group(1) else 'const_item'] += 1
            elif re.match(r'^(const|static|promoted\[|// |alloc|\s*$|\s+)', line) or True:
                # skip non-fn items wholesale until their closing brace at column 0
                if line.rstrip().endswith('{') and not line.startswith(' '):
                    stats['skipped_item'] += 1
                    while i < n and lines[i].rstrip() != '}':
                        i += 1
                    i += 1
            continue
        # inside a fn body
        if line.rstrip() == '}':
            cur.last_line = i
            cur = None; blk = None
            continue
        if blk is None:
            m = re.match(r'^bb(\d+)( \(cleanup\))?: \{$', s)
            if m:
                blk = 'bb' + m.group(1); stmts = []; cleanup = bool(m.group(2))
                continue
            m = re.match(r'^let (mut )?_(\d+): (.*);$', s)
            if m:
                cur.locals[int(m.group(2))] = m.group(3)
                continue
            # debug / scope / braces
            continue
        # inside a block
        if s == '}':
            cur.errors.append('block %s without terminator' % blk)
            blk = None
            continue
        # a statement may span one line only in rustc's printer (string consts may contain newlines? rare)
        try:
            if is_terminator_line(s):
                t = parse_terminator(s)
                cur.blocks[blk] = (stmts, t, cleanup)
                stats['term_' + t.kind] += 1
                # consume closing brace
                while i < n and lines[i].strip() != '}':
                    i += 1
                i += 1
                blk = None
            else:
                st = parse_statement(s)
                stmts.append(st)
                stats['stmt_' + st.kind + ('_' + st.args[1].kind if st.kind == 'assign' else '')] += 1
        except (ParseError, AssertionError, IndexError, ValueError) as e:
            cur.errors.append('%s: %s | %s' % (blk, s[:160], e))
            stats['ERR'] += 1
    return bodies, stats

def find_param_open(h):
    """index of the '(' opening the parameter list in a fn header 'name(_1: T, ..) -> R'."""
    # the parameter list is the first top-level '(' whose content is empty or starts with '_<digit>: '
    i = 0
    n = len(h)
    while i < n:
        c = h[i]
        if c == '<':
            i = skip_balanced(h, i + 1, '>'); continue
        if c == '{':
            i = skip_balanced(h, i + 1, '}'); continue
        if c == '(':
            if h[i + 1] == ')' or re.match(r'_\d+: ', h[i + 1:]):
                return i
            i = skip_balanced(h, i + 1, ')'); continue
        i += 1
    raise ParseError('no param list in %r' % h)

if __name__ == '__main__':
    text = open(sys.argv[1]).read()
    bodies, stats = parse_mir(text)
    print(len(bodies), 'bodies')
    for k, v in sorted(stats.items()): print('  ', k, v)
    nerr = 0
    for b in bodies:
        for e in b.errors:
            nerr += 1
            if nerr <= 25: print('ERR in', b.name[:60], '::', e[:260])
    print('total errors', nerr)
