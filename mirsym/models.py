"""Native models of the std functions the crate calls. Every model is part of the trusted base (DESIGN 3.6).

A model is called as model(ex, st, callee, args) and returns a value, a Tail (call that instead),
('BODY', body, args), or NOTFOUND.  Models may call ex.branch(...) before (never after) mutating state.
"""
import re, struct, decimal
import z3
from values import *
from engine import Tail, NOTFOUND, INT_BITS

LIBM1 = ['ln', 'log2', 'log10', 'exp', 'exp2', 'cos', 'acos', 'cosh', 'acosh', 'sin', 'asin', 'sinh', 'asinh', 'tan', 'atan',
         'tanh', 'atanh', 'sqrt', 'cbrt']
LIBM2 = ['log', 'powf', 'atan2', 'hypot']


# ---------------------------------------------------------------- float helpers
def fp_concrete(t):
    """python float for a numeral FP term, else None"""
    t = z3.simplify(t)
    if not z3.is_fp_value(t):
        return None
    b = z3.simplify(z3.fpToIEEEBV(t))
    if t.isNaN():
        return float('nan')
    if not z3.is_bv_value(b):
        return None
    return struct.unpack('<d', struct.pack('<Q', b.as_long()))[0]


def fp_from_py(x):
    if x != x:
        return z3.fpNaN(F64)
    bits = struct.unpack('<Q', struct.pack('<d', x))[0]
    return z3.fpBVToFP(z3.BitVecVal(bits, 64), F64)


def fmod(ex, a, b):
    x, y = fp_concrete(a), fp_concrete(b)
    if x is not None and y is not None:
        r = host_libm('fmod', x, y)
        if r is not None:
            return fp_from_py(r)
    return ex.uf('fmod', F64, F64, F64)(a, b)


_LIBM = None


def host_libm(f, *xs):
    """concrete evaluation through the host C libm (the same library Rust's f64 methods call); used only
    when every argument is a numeral, i.e. in concrete-mode translator validation and replay judging"""
    global _LIBM
    import ctypes, ctypes.util
    if _LIBM is None:
        try:
            _LIBM = ctypes.CDLL(ctypes.util.find_library('m') or 'libm.so.6')
        except OSError:
            _LIBM = False
    if not _LIBM:
        return None
    name = {'ln': 'log', 'powf': 'pow'}.get(f, f)
    if f == 'log':      # f64::log(self, base) = ln(self) / ln(base)
        ln = _LIBM.log
        ln.restype = ctypes.c_double
        ln.argtypes = [ctypes.c_double]
        return ln(xs[0]) / ln(xs[1])
    try:
        fn = getattr(_LIBM, name)
    except AttributeError:
        return None
    fn.restype = ctypes.c_double
    fn.argtypes = [ctypes.c_double] * len(xs)
    return fn(*xs)


def float_to_int_sat(f, bits, signed):
    """Rust `as` cast float -> int: saturating, NaN -> 0"""
    if signed:
        lo, hi = -2 ** (bits - 1), 2 ** (bits - 1) - 1
        conv = z3.fpToSBV(z3.RTZ(), f, z3.BitVecSort(bits))
        hif = z3.FPVal(float(2 ** (bits - 1)), F64)
        lof = z3.FPVal(float(-2 ** (bits - 1)), F64)
        return z3.If(z3.fpIsNaN(f), bv(0, bits), z3.If(z3.fpGEQ(f, hif), bv(hi, bits), z3.If(z3.fpLEQ(f, lof), bv(lo, bits), conv)))
    conv = z3.fpToUBV(z3.RTZ(), f, z3.BitVecSort(bits))
    hif = z3.FPVal(float(2 ** bits), F64)
    return z3.If(z3.fpIsNaN(f), bv(0, bits), z3.If(z3.fpGEQ(f, hif), bv(2 ** bits - 1, bits), z3.If(z3.fpLEQ(f, z3.FPVal(0.0, F64)), bv(0, bits), conv)))


def rust_fmt_f64(x):
    if x != x:
        return 'NaN'
    if x in (float('inf'), float('-inf')):
        return 'inf' if x > 0 else '-inf'
    s = format(decimal.Decimal(repr(x)), 'f')
    if '.' in s:
        s = s.rstrip('0').rstrip('.')
    if s in ('0', '-0'):
        return '-0' if str(x).startswith('-') else '0'
    return s


def fmt_int_items(v):
    t = z3.simplify(v.t)
    if z3.is_bv_value(t):
        n = t.as_signed_long() if v.signed else t.as_long()
        return sstr(str(n)).items
    return [Opaque('fmt_int', (v,))]


def fmt_f64_items(v):
    x = fp_concrete(v.t)
    if x is not None:
        return sstr(rust_fmt_f64(x)).items
    return [Opaque('fmt_f64', (v,))]


# ---------------------------------------------------------------- string helpers
def str_byte_len(s):
    total = bv(0, 64)
    for c in s.items:
        if not isinstance(c, Int):
            raise Unsupported('byte length of a string with an opaque segment %r' % (c,))
        total = total + utf8_width(z3.ZeroExt(32, c.t))
    return z3.simplify(total)


def str_eq(a, b):
    if len(a.items) != len(b.items):
        if a.is_plain() and b.is_plain():
            return z3.BoolVal(False)
        raise Unsupported('equality of strings with opaque segments')
    cs = []
    for x, y in zip(a.items, b.items):
        if isinstance(x, Int) and isinstance(y, Int):
            cs.append(x.t == y.t)
        elif identical_items(x, y):
            continue
        else:
            raise Unsupported('equality of strings with opaque segments')
    return z3.simplify(z3.And(*cs)) if cs else z3.BoolVal(True)


def identical_items(x, y):
    from engine import identical
    return identical(x, y)


def str_lt(a, b, or_equal):
    """lexicographic a < b (or <=) over code points (= UTF-8 byte order)"""
    if not (a.is_plain() and b.is_plain()):
        raise Unsupported('ordering of strings with opaque segments')
    n = min(len(a.items), len(b.items))
    # fold from the end
    if len(a.items) < len(b.items):
        r = z3.BoolVal(True)
    elif len(a.items) > len(b.items):
        r = z3.BoolVal(False)
    else:
        r = z3.BoolVal(bool(or_equal))
    for i in range(n - 1, -1, -1):
        x, y = a.items[i].t, b.items[i].t
        r = z3.If(z3.ULT(x, y), True, z3.If(z3.UGT(x, y), False, r))
    return z3.simplify(r)


def to_sstr(ex, v):
    v = ex.deref_all(v)
    if isinstance(v, SStr):
        return v
    raise Unsupported('expected a string, got %r' % (v,))


# accept language of <f64 as FromStr> (std dec2flt) as a DFA over char classes
def f64_accepts(chars):
    """z3 Bool: the chars (list of BV32 terms) form a string accepted by f64::from_str"""
    n = len(chars)
    if n == 0:
        return z3.BoolVal(False)

    def is_digit(c):
        return z3.And(z3.UGE(c, ord('0')), z3.ULE(c, ord('9')))

    def lower_is(c, ch):
        return z3.Or(c == ord(ch), c == ord(ch.upper()))

    def word(cs, w):
        if len(cs) != len(w):
            return z3.BoolVal(False)
        return z3.And(*[lower_is(c, ch) for c, ch in zip(cs, w)])

    def unsigned(cs):
        if not cs:
            return z3.BoolVal(False)
        alts = [word(cs, 'inf'), word(cs, 'infinity'), word(cs, 'nan')]
        # digits* [. digits*] [e [+-] digits+], at least one digit in the mantissa
        m = len(cs)
        for ip in range(0, m + 1):            # ip = number of integer digits
            for has_dot in (False, True):
                p = ip + (1 if has_dot else 0)
                if p > m:
                    continue
                for fp in range(0, m - p + 1) if has_dot else [0]:
                    q = p + fp
                    if ip + fp == 0:
                        continue
                    base = [is_digit(c) for c in cs[:ip]]
                    if has_dot:
                        base.append(cs[ip] == ord('.'))
                        base += [is_digit(c) for c in cs[p:q]]
                    rest = cs[q:]
                    if not rest:
                        alts.append(z3.And(*base) if base else z3.BoolVal(True))
                        continue
                    # exponent
                    if len(rest) < 2:
                        continue
                    e = [lower_is(rest[0], 'e')]
                    ex_alts = []
                    ex_alts.append(z3.And(*[is_digit(c) for c in rest[1:]]))
                    if len(rest) >= 3:
                        ex_alts.append(z3.And(z3.Or(rest[1] == ord('+'), rest[1] == ord('-')), *[is_digit(c) for c in rest[2:]]))
                    alts.append(z3.And(*(base + e + [z3.Or(*ex_alts)])))
        return z3.Or(*alts)

    first_sign = z3.Or(chars[0] == ord('+'), chars[0] == ord('-'))
    alts = [unsigned(chars)]
    if n >= 2:
        alts.append(z3.And(first_sign, unsigned(chars[1:])))
    return z3.simplify(z3.Or(*alts))


def int_parse(chars, radix, bits=64, signed=True):
    """(valid, fits, value) for iN/uN::from_str_radix over a list of BV32 char terms"""
    n = len(chars)
    if n == 0:
        return z3.BoolVal(False), z3.BoolVal(False), bv(0, bits)

    def digit_val(c):
        d = z3.If(z3.And(z3.UGE(c, ord('0')), z3.ULE(c, ord('9'))), c - ord('0'), bv(99, 32))
        if radix > 10:
            d = z3.If(z3.And(z3.UGE(c, ord('a')), z3.ULE(c, ord('a') + radix - 11)), c - ord('a') + 10, d)
            d = z3.If(z3.And(z3.UGE(c, ord('A')), z3.ULE(c, ord('A') + radix - 11)), c - ord('A') + 10, d)
        elif radix < 10:
            d = z3.If(z3.ULT(d, radix), d, bv(99, 32))
        return d

    def to_digits(v):
        out = []
        while v:
            out.append(v % radix)
            v //= radix
        return list(reversed(out)) or [0]

    def lex_le(ds, bound):
        """numeric value of the digit vector ds <= bound, by comparing equal-length digit strings (bound zero-padded)"""
        b = to_digits(bound)
        if len(ds) < len(b):
            return z3.BoolVal(True)
        b = [0] * (len(ds) - len(b)) + b
        r = z3.BoolVal(True)
        for d, bd in reversed(list(zip(ds, b))):
            r = z3.If(z3.ULT(d, bd), True, z3.If(z3.UGT(d, bd), False, r))
        return r

    def parse(cs):
        ds = [digit_val(c) for c in cs]
        okd = z3.And(*[z3.ULT(d, radix) for d in ds]) if ds else z3.BoolVal(False)
        acc = bv(0, bits)
        for d in ds:
            acc = acc * radix + z3.ZeroExt(bits - 32, d) if bits > 32 else acc * radix + z3.Extract(bits - 1, 0, d)
        return okd, ds, acc

    neg = chars[0] == ord('-')
    plus = chars[0] == ord('+')
    v_all, d_all, a_all = parse(chars)
    if n >= 2:
        v_rest, d_rest, a_rest = parse(chars[1:])
    else:
        v_rest, d_rest, a_rest = z3.BoolVal(False), [], bv(0, bits)
    signed_form = z3.Or(neg, plus)
    valid = z3.If(signed_form, v_rest, v_all)
    # the parsed magnitude fits iff it is <= MAX (or <= 2^(bits-1) for a negative literal): compared digit-wise, no wide arithmetic;
    # the value is accumulated in wrapping `bits`-bit arithmetic, which is exact whenever it fits
    if not signed:
        # unsigned: a leading '+' is accepted, a leading '-' is not (std: "-" is an invalid digit for unsigned types)
        valid = z3.If(plus, v_rest, z3.And(z3.Not(neg), v_all))
        hi = 2 ** bits - 1
        fits = z3.If(plus, lex_le(d_rest, hi) if d_rest else z3.BoolVal(False), lex_le(d_all, hi))
        val = z3.If(plus, a_rest, a_all)
        return z3.simplify(valid), z3.simplify(fits), z3.simplify(val)
    fits = z3.If(neg, lex_le(d_rest, 2 ** (bits - 1)) if d_rest else z3.BoolVal(False),
                 z3.If(plus, lex_le(d_rest, 2 ** (bits - 1) - 1) if d_rest else z3.BoolVal(False), lex_le(d_all, 2 ** (bits - 1) - 1)))
    val = z3.If(neg, -a_rest, z3.If(plus, a_rest, a_all))
    return z3.simplify(valid), z3.simplify(fits), z3.simplify(val)


# ---------------------------------------------------------------- synthetic MIR bodies
def synth(ex, name, text):
    p = ex.p
    bs = p.by_name.get(name)
    if bs:
        return bs[0]
    from mirparse import parse_mir
    bodies, _ = parse_mir(text)
    b = bodies[0]
    if b.errors:
        raise Unsupported('synthetic body %s: %s' % (name, b.errors[0]))
    b.sname = name
    b.synthetic = True
    p.by_name[name] = [b]
    return b


def synth_write_fmt(ex, n):
    name = '__write_fmt_%d' % n
    lines = ['fn %s(_1: &mut Formatter, _2: Arguments) -> Result<(), Error> {' % name]
    for i in range(n):
        lines += ['    bb%d: {' % (2 * i),
                  '        _%d = __fmt_piece(copy _1, copy _2, const %d_usize) -> [return: bb%d, unwind continue];' % (10 + i, i, 2 * i + 1),
                  '    }',
                  '    bb%d: {' % (2 * i + 1),
                  '        _3 = discriminant(_%d);' % (10 + i),
                  '        switchInt(move _3) -> [0: bb%d, otherwise: bb%d];' % (2 * i + 2, 2 * n + 1),
                  '    }']
    lines += ['    bb%d: {' % (2 * n), '        _0 = Result::<(), Error>::Ok(const ());', '        return;', '    }',
              '    bb%d: {' % (2 * n + 1), '        _0 = Result::<(), Error>::Err(const ());', '        return;', '    }', '}']
    return synth(ex, name, '\n'.join(lines))


SYNTH_STATIC = {
    '__format': '''fn __format(_1: Arguments) -> String {
    bb0: {
        _2 = __new_formatter() -> [return: bb1, unwind continue];
    }
    bb1: {
        _3 = &mut _2;
        _4 = Formatter::write_fmt(copy _3, move _1) -> [return: bb2, unwind continue];
    }
    bb2: {
        _5 = discriminant(_4);
        switchInt(move _5) -> [0: bb3, otherwise: bb4];
    }
    bb3: {
        _0 = __formatter_take(copy _3) -> [return: bb5, unwind continue];
    }
    bb4: {
        _6 = __panic(const "a formatting trait implementation returned an error") -> unwind continue;
    }
    bb5: {
        return;
    }
}''',
    '__to_string': '''fn __to_string(_1: &T) -> String {
    bb0: {
        _2 = __new_formatter() -> [return: bb1, unwind continue];
    }
    bb1: {
        _3 = &mut _2;
        _4 = __display_fmt(copy _1, copy _3) -> [return: bb2, unwind continue];
    }
    bb2: {
        _5 = discriminant(_4);
        switchInt(move _5) -> [0: bb3, otherwise: bb4];
    }
    bb3: {
        _0 = __formatter_take(copy _3) -> [return: bb5, unwind continue];
    }
    bb4: {
        _6 = __panic(const "a Display implementation returned an error unexpectedly") -> unwind continue;
    }
    bb5: {
        return;
    }
}''',
    '__map_err': '''fn __map_err(_1: Result, _2: F) -> Result {
    bb0: {
        _3 = discriminant(_1);
        switchInt(move _3) -> [0: bb1, otherwise: bb2];
    }
    bb1: {
        _0 = move _1;
        return;
    }
    bb2: {
        _4 = move ((_1 as Err).0: E);
        _5 = __call_value(move _2, move _4) -> [return: bb3, unwind continue];
    }
    bb3: {
        _0 = Result::<T, F>::Err(move _5);
        return;
    }
}''',
    '__map_ok': '''fn __map_ok(_1: Result, _2: F) -> Result {
    bb0: {
        _3 = discriminant(_1);
        switchInt(move _3) -> [0: bb2, otherwise: bb1];
    }
    bb1: {
        _0 = move _1;
        return;
    }
    bb2: {
        _4 = move ((_1 as Ok).0: E);
        _5 = __call_value(move _2, move _4) -> [return: bb3, unwind continue];
    }
    bb3: {
        _0 = Result::<T, F>::Ok(move _5);
        return;
    }
}''',
    '__opt_map': '''fn __opt_map(_1: Option, _2: F) -> Option {
    bb0: {
        _3 = discriminant(_1);
        switchInt(move _3) -> [0: bb1, otherwise: bb2];
    }
    bb1: {
        _0 = Option::<T>::None;
        return;
    }
    bb2: {
        _4 = move ((_1 as Some).0: E);
        _5 = __call_value(move _2, move _4) -> [return: bb3, unwind continue];
    }
    bb3: {
        _0 = Option::<T>::Some(move _5);
        return;
    }
}''',
    '__ok_or_else': '''fn __ok_or_else(_1: Option, _2: F) -> Result {
    bb0: {
        _3 = discriminant(_1);
        switchInt(move _3) -> [0: bb2, otherwise: bb1];
    }
    bb1: {
        _4 = move ((_1 as Some).0: E);
        _0 = Result::<T, F>::Ok(move _4);
        return;
    }
    bb2: {
        _5 = __call_value(move _2) -> [return: bb3, unwind continue];
    }
    bb3: {
        _0 = Result::<T, F>::Err(move _5);
        return;
    }
}''',
    '__opt_filter': '''fn __opt_filter(_1: Option, _2: F) -> Option {
    bb0: {
        _3 = discriminant(_1);
        switchInt(move _3) -> [0: bb1, otherwise: bb2];
    }
    bb1: {
        _0 = move _1;
        return;
    }
    bb2: {
        _4 = &((_1 as Some).0: E);
        _5 = __call_value(move _2, move _4) -> [return: bb3, unwind continue];
    }
    bb3: {
        switchInt(move _5) -> [0: bb4, otherwise: bb1];
    }
    bb4: {
        _0 = Option::<T>::None;
        return;
    }
}''',
    '__and_then': '''fn __and_then(_1: Option, _2: F) -> Option {
    bb0: {
        _3 = discriminant(_1);
        switchInt(move _3) -> [0: bb1, otherwise: bb2];
    }
    bb1: {
        _0 = move _1;
        return;
    }
    bb2: {
        _4 = move ((_1 as Some).0: E);
        _0 = __call_value(move _2, move _4) -> [return: bb3, unwind continue];
    }
    bb3: {
        return;
    }
}''',
    '__res_and_then': '''fn __res_and_then(_1: Result, _2: F) -> Result {
    bb0: {
        _3 = discriminant(_1);
        switchInt(move _3) -> [0: bb2, otherwise: bb1];
    }
    bb1: {
        _0 = move _1;
        return;
    }
    bb2: {
        _4 = move ((_1 as Ok).0: E);
        _0 = __call_value(move _2, move _4) -> [return: bb3, unwind continue];
    }
    bb3: {
        return;
    }
}''',
    '__unwrap_or_else': '''fn __unwrap_or_else(_1: Option, _2: F) -> T {
    bb0: {
        _3 = discriminant(_1);
        switchInt(move _3) -> [0: bb2, otherwise: bb1];
    }
    bb1: {
        _0 = move ((_1 as Some).0: E);
        return;
    }
    bb2: {
        _0 = __call_value(move _2) -> [return: bb3, unwind continue];
    }
    bb3: {
        return;
    }
}''',
    '__res_unwrap_or_else': '''fn __res_unwrap_or_else(_1: Result, _2: F) -> T {
    bb0: {
        _3 = discriminant(_1);
        switchInt(move _3) -> [0: bb1, otherwise: bb2];
    }
    bb1: {
        _0 = move ((_1 as Ok).0: E);
        return;
    }
    bb2: {
        _4 = move ((_1 as Err).0: E);
        _0 = __call_value(move _2, move _4) -> [return: bb3, unwind continue];
    }
    bb3: {
        return;
    }
}''',
    # iterator consumers with a predicate: any / all / position / find, and fold-like count
    '__iter_any': '''fn __iter_any(_1: &mut I, _2: F) -> bool {
    bb0: {
        _3 = __iter_next(copy _1) -> [return: bb1, unwind continue];
    }
    bb1: {
        _4 = discriminant(_3);
        switchInt(move _4) -> [0: bb5, otherwise: bb2];
    }
    bb2: {
        _5 = move ((_3 as Some).0: T);
        _7 = &mut _2;
        _6 = __call_value(copy _7, move _5) -> [return: bb3, unwind continue];
    }
    bb3: {
        switchInt(move _6) -> [0: bb0, otherwise: bb4];
    }
    bb4: {
        _0 = const true;
        return;
    }
    bb5: {
        _0 = const false;
        return;
    }
}''',
    '__iter_all': '''fn __iter_all(_1: &mut I, _2: F) -> bool {
    bb0: {
        _3 = __iter_next(copy _1) -> [return: bb1, unwind continue];
    }
    bb1: {
        _4 = discriminant(_3);
        switchInt(move _4) -> [0: bb5, otherwise: bb2];
    }
    bb2: {
        _5 = move ((_3 as Some).0: T);
        _7 = &mut _2;
        _6 = __call_value(copy _7, move _5) -> [return: bb3, unwind continue];
    }
    bb3: {
        switchInt(move _6) -> [0: bb4, otherwise: bb0];
    }
    bb4: {
        _0 = const false;
        return;
    }
    bb5: {
        _0 = const true;
        return;
    }
}''',
    # find / position / find_map / skip_while-free consumers: pull items in order, stop at the first hit
    '__iter_find': '''fn __iter_find(_1: &mut I, _2: F) -> Option {
    bb0: {
        _3 = __iter_next(copy _1) -> [return: bb1, unwind continue];
    }
    bb1: {
        _4 = discriminant(_3);
        switchInt(move _4) -> [0: bb5, otherwise: bb2];
    }
    bb2: {
        _8 = &((_3 as Some).0: T);
        _7 = &mut _2;
        _6 = __call_value(copy _7, move _8) -> [return: bb3, unwind continue];
    }
    bb3: {
        switchInt(move _6) -> [0: bb0, otherwise: bb4];
    }
    bb4: {
        _0 = move _3;
        return;
    }
    bb5: {
        _0 = Option::<T>::None;
        return;
    }
}''',
    '__peek_next_if_eq': '''fn __peek_next_if_eq(_1: &mut P, _2: &T) -> Option {
    bb0: {
        _3 = Peekable::<I>::peek(copy _1) -> [return: bb1, unwind continue];
    }
    bb1: {
        _4 = discriminant(_3);
        switchInt(move _4) -> [0: bb5, otherwise: bb2];
    }
    bb2: {
        _5 = copy ((_3 as Some).0: &T);
        _6 = __eq_values(copy _5, copy _2) -> [return: bb3, unwind continue];
    }
    bb3: {
        switchInt(move _6) -> [0: bb5, otherwise: bb4];
    }
    bb4: {
        _0 = __iter_next(copy _1) -> [return: bb6, unwind continue];
    }
    bb5: {
        _0 = Option::<T>::None;
        return;
    }
    bb6: {
        return;
    }
}''',
    '__some_of_call': '''fn __some_of_call(_1: F) -> Option {
    bb0: {
        _2 = __call_value(move _1) -> [return: bb1, unwind continue];
    }
    bb1: {
        _0 = Option::<T>::Some(move _2);
        return;
    }
}''',
    '__zip_next': '''fn __zip_next(_1: &mut I) -> Option {
    bb0: {
        _2 = __adapt_inner_next(copy _1) -> [return: bb1, unwind continue];
    }
    bb1: {
        _3 = discriminant(_2);
        switchInt(move _3) -> [0: bb5, otherwise: bb2];
    }
    bb2: {
        _4 = __adapt_second_next(copy _1) -> [return: bb3, unwind continue];
    }
    bb3: {
        _5 = discriminant(_4);
        switchInt(move _5) -> [0: bb5, otherwise: bb4];
    }
    bb4: {
        _6 = move ((_2 as Some).0: A);
        _7 = move ((_4 as Some).0: B);
        _8 = (move _6, move _7);
        _0 = Option::<T>::Some(move _8);
        return;
    }
    bb5: {
        _0 = Option::<T>::None;
        return;
    }
}''',
    '__peek_next_if': '''fn __peek_next_if(_1: &mut P, _2: F) -> Option {
    bb0: {
        _3 = Peekable::<I>::peek(copy _1) -> [return: bb1, unwind continue];
    }
    bb1: {
        _4 = discriminant(_3);
        switchInt(move _4) -> [0: bb5, otherwise: bb2];
    }
    bb2: {
        _5 = copy ((_3 as Some).0: &T);
        _6 = __call_value(move _2, move _5) -> [return: bb3, unwind continue];
    }
    bb3: {
        switchInt(move _6) -> [0: bb5, otherwise: bb4];
    }
    bb4: {
        _0 = __iter_next(copy _1) -> [return: bb6, unwind continue];
    }
    bb5: {
        _0 = Option::<T>::None;
        return;
    }
    bb6: {
        return;
    }
}''',
    '__iter_rposition': '''fn __iter_rposition(_1: &mut I, _2: F) -> Option {
    bb0: {
        _9 = __iter_len(copy _1) -> [return: bb6, unwind continue];
    }
    bb6: {
        _3 = __iter_next_back(copy _1) -> [return: bb1, unwind continue];
    }
    bb1: {
        _4 = discriminant(_3);
        switchInt(move _4) -> [0: bb5, otherwise: bb2];
    }
    bb2: {
        _5 = move ((_3 as Some).0: T);
        _9 = Sub(copy _9, const 1_usize);
        _7 = &mut _2;
        _6 = __call_value(copy _7, move _5) -> [return: bb3, unwind continue];
    }
    bb3: {
        switchInt(move _6) -> [0: bb6, otherwise: bb4];
    }
    bb4: {
        _0 = Option::<usize>::Some(copy _9);
        return;
    }
    bb5: {
        _0 = Option::<usize>::None;
        return;
    }
}''',
    '__iter_rfind': '''fn __iter_rfind(_1: &mut I, _2: F) -> Option {
    bb0: {
        _3 = __iter_next_back(copy _1) -> [return: bb1, unwind continue];
    }
    bb1: {
        _4 = discriminant(_3);
        switchInt(move _4) -> [0: bb5, otherwise: bb2];
    }
    bb2: {
        _8 = &((_3 as Some).0: T);
        _7 = &mut _2;
        _6 = __call_value(copy _7, move _8) -> [return: bb3, unwind continue];
    }
    bb3: {
        switchInt(move _6) -> [0: bb0, otherwise: bb4];
    }
    bb4: {
        _0 = move _3;
        return;
    }
    bb5: {
        _0 = Option::<T>::None;
        return;
    }
}''',
    '__iter_position': '''fn __iter_position(_1: &mut I, _2: F) -> Option {
    bb0: {
        _9 = const 0_usize;
        goto -> bb6;
    }
    bb6: {
        _3 = __iter_next(copy _1) -> [return: bb1, unwind continue];
    }
    bb1: {
        _4 = discriminant(_3);
        switchInt(move _4) -> [0: bb5, otherwise: bb2];
    }
    bb2: {
        _5 = move ((_3 as Some).0: T);
        _7 = &mut _2;
        _6 = __call_value(copy _7, move _5) -> [return: bb3, unwind continue];
    }
    bb3: {
        switchInt(move _6) -> [0: bb7, otherwise: bb4];
    }
    bb7: {
        _9 = Add(copy _9, const 1_usize);
        goto -> bb6;
    }
    bb4: {
        _0 = Option::<usize>::Some(copy _9);
        return;
    }
    bb5: {
        _0 = Option::<usize>::None;
        return;
    }
}''',
    '__iter_find_map': '''fn __iter_find_map(_1: &mut I, _2: F) -> Option {
    bb0: {
        _3 = __iter_next(copy _1) -> [return: bb1, unwind continue];
    }
    bb1: {
        _4 = discriminant(_3);
        switchInt(move _4) -> [0: bb5, otherwise: bb2];
    }
    bb2: {
        _5 = move ((_3 as Some).0: T);
        _7 = &mut _2;
        _6 = __call_value(copy _7, move _5) -> [return: bb3, unwind continue];
    }
    bb3: {
        _8 = discriminant(_6);
        switchInt(move _8) -> [0: bb0, otherwise: bb4];
    }
    bb4: {
        _0 = move _6;
        return;
    }
    bb5: {
        _0 = Option::<T>::None;
        return;
    }
}''',
    '__try_fold': '''fn __try_fold(_1: &mut I, _2: B, _3: F) -> R {
    bb0: {
        _4 = __iter_next(copy _1) -> [return: bb1, unwind continue];
    }
    bb1: {
        _5 = discriminant(_4);
        switchInt(move _5) -> [0: bb5, otherwise: bb2];
    }
    bb2: {
        _6 = move ((_4 as Some).0: T);
        _8 = &mut _3;
        _7 = __call_value(copy _8, move _2, move _6) -> [return: bb3, unwind continue];
    }
    bb3: {
        _9 = __try_is_output(copy _7) -> [return: bb7, unwind continue];
    }
    bb7: {
        switchInt(move _9) -> [0: bb6, otherwise: bb4];
    }
    bb4: {
        _2 = __try_output(move _7) -> [return: bb0, unwind continue];
    }
    bb5: {
        _0 = __try_from_output(move _2, const 0_usize) -> [return: bb8, unwind continue];
    }
    bb6: {
        _0 = move _7;
        return;
    }
    bb8: {
        return;
    }
}''',
    '__fold': '''fn __fold(_1: &mut I, _2: B, _3: F) -> B {
    bb0: {
        _4 = __iter_next(copy _1) -> [return: bb1, unwind continue];
    }
    bb1: {
        _5 = discriminant(_4);
        switchInt(move _5) -> [0: bb5, otherwise: bb2];
    }
    bb2: {
        _6 = move ((_4 as Some).0: T);
        _8 = &mut _3;
        _2 = __call_value(copy _8, move _2, move _6) -> [return: bb0, unwind continue];
    }
    bb5: {
        _0 = move _2;
        return;
    }
}''',
    # next() of FilterMap / Map / Cloned adaptors
    '__filter_map_next': '''fn __filter_map_next(_1: &mut I) -> Option {
    bb0: {
        _2 = __adapt_inner_next(copy _1) -> [return: bb1, unwind continue];
    }
    bb1: {
        _3 = discriminant(_2);
        switchInt(move _3) -> [0: bb5, otherwise: bb2];
    }
    bb2: {
        _4 = move ((_2 as Some).0: T);
        _5 = __adapt_call(copy _1, move _4) -> [return: bb3, unwind continue];
    }
    bb3: {
        _6 = discriminant(_5);
        switchInt(move _6) -> [0: bb0, otherwise: bb4];
    }
    bb4: {
        _0 = move _5;
        return;
    }
    bb5: {
        _0 = Option::<T>::None;
        return;
    }
}''',
    '__collect_string': '''fn __collect_string(_1: &mut I) -> String {
    bb0: {
        _2 = __drain(copy _1) -> [return: bb1, unwind continue];
    }
    bb1: {
        _0 = __vec_to_string(move _2) -> [return: bb2, unwind continue];
    }
    bb2: {
        return;
    }
}''',
    '__chain_next': '''fn __chain_next(_1: &mut I) -> Option {
    bb0: {
        _2 = __adapt_inner_next(copy _1) -> [return: bb1, unwind continue];
    }
    bb1: {
        _3 = discriminant(_2);
        switchInt(move _3) -> [0: bb2, otherwise: bb4];
    }
    bb2: {
        _0 = __adapt_second_next(copy _1) -> [return: bb3, unwind continue];
    }
    bb3: {
        return;
    }
    bb4: {
        _0 = move _2;
        return;
    }
}''',
    '__flat_map_next': '''fn __flat_map_next(_1: &mut I) -> Option {
    bb0: {
        _2 = __fm_cur_next(copy _1) -> [return: bb1, unwind continue];
    }
    bb1: {
        _3 = discriminant(_2);
        switchInt(move _3) -> [0: bb2, otherwise: bb6];
    }
    bb2: {
        _4 = __adapt_inner_next(copy _1) -> [return: bb3, unwind continue];
    }
    bb3: {
        _5 = discriminant(_4);
        switchInt(move _5) -> [0: bb7, otherwise: bb4];
    }
    bb4: {
        _6 = move ((_4 as Some).0: T);
        _7 = __adapt_call(copy _1, move _6) -> [return: bb5, unwind continue];
    }
    bb5: {
        _8 = __fm_set_cur(copy _1, move _7) -> [return: bb0, unwind continue];
    }
    bb6: {
        _0 = move _2;
        return;
    }
    bb7: {
        _0 = Option::<T>::None;
        return;
    }
}''',
    '__filter_next': '''fn __filter_next(_1: &mut I) -> Option {
    bb0: {
        _2 = __adapt_inner_next(copy _1) -> [return: bb1, unwind continue];
    }
    bb1: {
        _3 = discriminant(_2);
        switchInt(move _3) -> [0: bb5, otherwise: bb2];
    }
    bb2: {
        _4 = &((_2 as Some).0: T);
        _5 = __adapt_call(copy _1, copy _4) -> [return: bb3, unwind continue];
    }
    bb3: {
        switchInt(move _5) -> [0: bb0, otherwise: bb4];
    }
    bb4: {
        _0 = move _2;
        return;
    }
    bb5: {
        _0 = Option::<T>::None;
        return;
    }
}''',
    '__map_next': '''fn __map_next(_1: &mut I) -> Option {
    bb0: {
        _2 = __adapt_inner_next(copy _1) -> [return: bb1, unwind continue];
    }
    bb1: {
        _3 = discriminant(_2);
        switchInt(move _3) -> [0: bb5, otherwise: bb2];
    }
    bb2: {
        _4 = move ((_2 as Some).0: T);
        _5 = __adapt_call(copy _1, move _4) -> [return: bb3, unwind continue];
    }
    bb3: {
        _0 = Option::<T>::Some(move _5);
        return;
    }
    bb5: {
        _0 = Option::<T>::None;
        return;
    }
}''',
    # collect an iterator into a Vec (harness helper)
    # collect::<Result<Vec<_>, E>>() / collect::<Option<Vec<_>>>(): stop at the first Err / None (std's GenericShunt), items pulled lazily in order
    '__collect_try': '''fn __collect_try(_1: &mut I) -> R {
    bb0: {
        _7 = Vec::<T>::new() -> [return: bb1, unwind continue];
    }
    bb1: {
        _2 = __iter_next(copy _1) -> [return: bb2, unwind continue];
    }
    bb2: {
        _3 = discriminant(_2);
        switchInt(move _3) -> [0: bb6, otherwise: bb3];
    }
    bb3: {
        _4 = move ((_2 as Some).0: T);
        _8 = __try_is_output(copy _4) -> [return: bb4, unwind continue];
    }
    bb4: {
        switchInt(move _8) -> [0: bb7, otherwise: bb5];
    }
    bb5: {
        _9 = __try_output(move _4) -> [return: bb8, unwind continue];
    }
    bb8: {
        _5 = &mut _7;
        _6 = Vec::<T>::push(move _5, move _9) -> [return: bb1, unwind continue];
    }
    bb6: {
        _0 = __try_from_output(move _7, const 1_usize) -> [return: bb9, unwind continue];
    }
    bb7: {
        _0 = __try_residual(move _4) -> [return: bb9, unwind continue];
    }
    bb9: {
        return;
    }
}''',
    '__collect_try_string': '''fn __collect_try_string(_1: &mut I) -> R {
    bb0: {
        _7 = Vec::<T>::new() -> [return: bb1, unwind continue];
    }
    bb1: {
        _2 = __iter_next(copy _1) -> [return: bb2, unwind continue];
    }
    bb2: {
        _3 = discriminant(_2);
        switchInt(move _3) -> [0: bb6, otherwise: bb3];
    }
    bb3: {
        _4 = move ((_2 as Some).0: T);
        _8 = __try_is_output(copy _4) -> [return: bb4, unwind continue];
    }
    bb4: {
        switchInt(move _8) -> [0: bb7, otherwise: bb5];
    }
    bb5: {
        _9 = __try_output(move _4) -> [return: bb8, unwind continue];
    }
    bb8: {
        _5 = &mut _7;
        _6 = Vec::<T>::push(move _5, move _9) -> [return: bb1, unwind continue];
    }
    bb6: {
        _10 = __vec_to_string(move _7) -> [return: bb10, unwind continue];
    }
    bb10: {
        _0 = __try_from_output(move _10, const 1_usize) -> [return: bb9, unwind continue];
    }
    bb7: {
        _0 = __try_residual(move _4) -> [return: bb9, unwind continue];
    }
    bb9: {
        return;
    }
}''',
    '__drain': '''fn __drain(_1: &mut I) -> Vec {
    bb0: {
        _0 = Vec::<T>::new() -> [return: bb1, unwind continue];
    }
    bb1: {
        _2 = __iter_next(copy _1) -> [return: bb2, unwind continue];
    }
    bb2: {
        _3 = discriminant(_2);
        switchInt(move _3) -> [0: bb4, otherwise: bb3];
    }
    bb3: {
        _4 = move ((_2 as Some).0: T);
        _5 = &mut _0;
        _6 = Vec::<T>::push(move _5, move _4) -> [return: bb1, unwind continue];
    }
    bb4: {
        return;
    }
}''',
}


def synth_static(ex, name):
    return synth(ex, name, SYNTH_STATIC[name])


def synth_vec_eq(ex, n):
    name = '__vec_eq_%d' % n
    lines = ['fn %s(_1: &Vec, _2: &Vec) -> bool {' % name]
    for i in range(n):
        lines += ['    bb%d: {' % (2 * i),
                  '        _3 = &(*_1)[%d of %d];' % (i, n),
                  '        _4 = &(*_2)[%d of %d];' % (i, n),
                  '        _5 = __elem_eq(move _3, move _4) -> [return: bb%d, unwind continue];' % (2 * i + 1),
                  '    }',
                  '    bb%d: {' % (2 * i + 1),
                  '        switchInt(move _5) -> [0: bb%d, otherwise: bb%d];' % (2 * n + 1, 2 * i + 2),
                  '    }']
    lines += ['    bb%d: {' % (2 * n), '        _0 = const true;', '        return;', '    }',
              '    bb%d: {' % (2 * n + 1), '        _0 = const false;', '        return;', '    }', '}']
    return synth(ex, name, '\n'.join(lines))


def synth_contains(ex, n):
    name = '__contains_%d' % n
    lines = ['fn %s(_1: &Vec, _2: &T) -> bool {' % name]
    for i in range(n):
        lines += ['    bb%d: {' % (2 * i),
                  '        _3 = &(*_1)[%d of %d];' % (i, n),
                  '        _5 = __elem_eq(move _3, copy _2) -> [return: bb%d, unwind continue];' % (2 * i + 1),
                  '    }',
                  '    bb%d: {' % (2 * i + 1),
                  '        switchInt(move _5) -> [0: bb%d, otherwise: bb%d];' % (2 * i + 2, 2 * n + 1),
                  '    }']
    lines += ['    bb%d: {' % (2 * n), '        _0 = const false;', '        return;', '    }',
              '    bb%d: {' % (2 * n + 1), '        _0 = const true;', '        return;', '    }', '}']
    return synth(ex, name, '\n'.join(lines))


# ---------------------------------------------------------------- generic equality dispatch
CRATE_EQ_TYPES = ('Value', 'Operator', 'Token', 'PartialToken', 'Node', 'EvalexprError', 'ValueType')


def eq_dispatch(ex, st, a, b):
    """a, b: references (or values) to compare with the type's PartialEq"""
    x = ex.deref_all(a)
    y = ex.deref_all(b)
    if isinstance(x, Int):
        return x.t == y.t
    if isinstance(x, DiscrV):
        return x.t == y.t
    if isinstance(x, Fl):
        return z3.fpEQ(x.t, y.t)
    if z3.is_expr(x) and z3.is_bool(x):
        return x == y
    if isinstance(x, SStr):
        return str_eq(x, y)
    if isinstance(x, VecV):
        if len(x.items) != len(y.items):
            return z3.BoolVal(False)
        if not x.items:
            return z3.BoolVal(True)
        return ('BODY', synth_vec_eq(ex, len(x.items)), [as_ref(st, a), as_ref(st, b)])
    if isinstance(x, Adt):
        if x.ty in CRATE_EQ_TYPES:
            body = ex.p.find_method('PartialEq', x.ty, 'eq')
            if body is None:
                raise Unsupported('no PartialEq body for %s' % x.ty)
            return ('BODY', body, [as_ref(st, a), as_ref(st, b)])
        if x.ty in ('Option', 'tuple', 'RangeInclusive', 'Result', '()'):
            if isinstance(x.variant, int) and isinstance(y.variant, int):
                if x.variant != y.variant:
                    return z3.BoolVal(False)
                if not x.fields:
                    return z3.BoolVal(True)
                if all(isinstance(f, (Int, Fl)) or z3.is_expr(f) for f in x.fields):
                    return z3.And(*[eq_dispatch(ex, st, p, q) for p, q in zip(x.fields, y.fields)])
                if len(x.fields) == 1:
                    return eq_dispatch(ex, st, x.fields[0], y.fields[0])
            elif not x.fields and not y.fields:
                vx = x.variant if not isinstance(x.variant, int) else bv(x.variant, 64)
                vy = y.variant if not isinstance(y.variant, int) else bv(y.variant, 64)
                return vx == vy
        if not x.fields and not getattr(y, 'fields', [1]) and x.ty == getattr(y, 'ty', None):
            # payload-free enum of std (Ordering, …): equality of the discriminants
            vx = x.variant if not isinstance(x.variant, int) else bv(x.variant, 64)
            vy = y.variant if not isinstance(y.variant, int) else bv(y.variant, 64)
            return z3.simplify(vx == vy)
    raise Unsupported('PartialEq on %r' % (x,))


def as_ref(st, v):
    if isinstance(v, Ref):
        return v
    return Ref(st.new_cell(v), [])


# ---------------------------------------------------------------- the model table
def model(ex, st, c, args):
    D = ex.deref_all
    if c.startswith(('std::option::Option::', 'core::option::Option::', 'std::result::Result::', 'core::result::Result::')):
        c = c.split('::', 2)[2]
    if ' as std::cmp::' in c or ' as core::cmp::' in c:
        # fully qualified comparison traits (as printed for function pointers such as `PartialOrd::gt`): same models as the short form
        c = re.sub(r' as (?:std|core)::cmp::(\w+)', r' as \1', c)
    B = lambda options: ex.branch(st, options)

    # ----- control / error plumbing
    if c.endswith(' as Try>::branch') and c.startswith('<Result<'):
        r = args[0]
        if r.variant == 0:
            return Adt('ControlFlow', 0, [r.fields[0]])
        return Adt('ControlFlow', 1, [Adt('Result', 1, [r.fields[0]])])
    if c.startswith('<Result<') and c.endswith('::from_residual'):
        return Adt('Result', 1, [args[0].fields[0]])
    if c.endswith(' as Try>::branch') and c.startswith('<Option<'):
        o = args[0]
        if o.variant == 1:
            return Adt('ControlFlow', 0, [o.fields[0]])
        return Adt('ControlFlow', 1, [none()])
    if c.startswith('<Option<') and c.endswith('::from_residual'):
        return none()
    if c == 'must_use':
        return args[0]
    if c in ('core::panicking::panic', 'std::rt::panic_fmt', 'core::panicking::panic_fmt', '__panic', 'std::rt::begin_panic',
             'core::panicking::unreachable_display', 'core::panicking::panic_display'):
        msg = D(args[0]) if args else ''
        raise Panic('explicit panic: %s' % (msg.concrete() if isinstance(msg, SStr) else 'formatted message'))
    if c == '__drain':
        return ('BODY', synth_static(ex, '__drain'), args)
    if c == '__call_value':
        f = args[0]
        rest = args[1:]
        return call_value(ex, st, f, rest)
    if re.fullmatch(r'<&?(mut )?(\{closure@.*\}|F|impl Fn.*|fn\(.*\).*) as Fn(Mut|Once)?<.*>>::call(_mut|_once)?', c):
        # explicit call through the Fn* traits (e.g. a closure passed by reference to an adaptor): arguments arrive as one tuple
        f = args[0]
        tup = args[1]
        fv = ex.deref_all(f) if isinstance(f, (Ref, BoxV)) else f
        mcl = re.match(r'<&?(?:mut )?(\{closure@[^{}]*\})', c)
        if fv is UNINIT and mcl:
            f = ex.closure_value(mcl.group(1), [])      # a capture-less closure is zero-sized: MIR never initialises the local that holds it
        return call_value(ex, st, f, list(tup.fields) if isinstance(tup, Adt) and tup.ty == 'tuple' else [tup])
    if re.fullmatch(r'<Box<dyn .*> as Fn<.*>>::call', c):
        f = D(args[0])
        tup = args[1]
        return call_value(ex, st, f, list(tup.fields))

    # ----- PartialEq / PartialOrd
    m = re.fullmatch(r'<(.*) as PartialEq(?:<.*>)?>::(eq|ne)', c)
    if m:
        ty = m.group(1)
        a, b = args
        if ty.startswith('&'):
            a = ex.deref1(a)
            b = ex.deref1(b)
        base = re.sub(r'<.*', '', ty.lstrip('&').replace('mut ', '')).split('::')[-1]
        if base in CRATE_EQ_TYPES and not ty.startswith('&') and m.group(2) == 'eq':
            return NOTFOUND        # derived impl: run the MIR
        r = eq_dispatch(ex, st, a, b)
        if isinstance(r, tuple):
            if m.group(2) == 'ne':
                return Tail('__eq_values', [a, b], negate=True)
            return r
        return z3.Not(r) if m.group(2) == 'ne' else r
    if c in ('__eq_values', '__elem_eq'):
        return eq_dispatch(ex, st, args[0], args[1])
    m = re.fullmatch(r'<(.*) as PartialOrd>::(lt|le|gt|ge)', c)
    if m:
        x, y = D(args[0]), D(args[1])
        op = m.group(2)
        if isinstance(x, Int):
            s = x.signed
            return {'lt': (x.t < y.t) if s else z3.ULT(x.t, y.t), 'le': (x.t <= y.t) if s else z3.ULE(x.t, y.t),
                    'gt': (x.t > y.t) if s else z3.UGT(x.t, y.t), 'ge': (x.t >= y.t) if s else z3.UGE(x.t, y.t)}[op]
        if isinstance(x, Fl):
            return {'lt': z3.fpLT, 'le': z3.fpLEQ, 'gt': z3.fpGT, 'ge': z3.fpGEQ}[op](x.t, y.t)
        if isinstance(x, SStr):
            if op == 'lt':
                return str_lt(x, y, False)
            if op == 'le':
                return str_lt(x, y, True)
            if op == 'gt':
                return str_lt(y, x, False)
            return str_lt(y, x, True)
        raise Unsupported('PartialOrd on %r' % (x,))
    m = re.fullmatch(r'<(.*) as Ord>::(max|min)', c)
    if m:
        x, y = args
        if isinstance(x, Int):
            # std: max returns the second argument when equal, min the first (indistinguishable for integers)
            gt = (x.t > y.t) if x.signed else z3.UGT(x.t, y.t)
            if m.group(2) == 'max':
                return Int(z3.If(gt, x.t, y.t), x.signed)
            return Int(z3.If(gt, y.t, x.t), x.signed)

    # ----- Clone / conversions of plain data
    m = re.fullmatch(r'<(.*) as Clone>::clone', c)
    if m:
        ty = m.group(1)
        base = re.sub(r'<.*', '', ty).split('::')[-1]
        v = D(args[0])
        if isinstance(v, Adt) and v.ty in ('Value', 'Operator', 'Token', 'PartialToken', 'Node', 'EvalexprError', 'HashMapContext', 'Function'):
            if not getattr(ex, 'native_clone', False) or v.ty in ('HashMapContext', 'Function'):
                return NOTFOUND    # derived / hand-written impl in the crate: run the MIR
        if isinstance(v, Closure) and ty == 'F':
            return copy_value(v)
        return copy_value(v)
    if re.fullmatch(r'<dyn ClonableFn.* as ClonableFn.*>::dyn_clone', c):
        body = ex.p.find_method('ClonableFn', 'F', 'dyn_clone')
        if body is None:
            raise Unsupported('dyn_clone body not found')
        return ('BODY', body, [args[0]])
    m = re.fullmatch(r'<(.*) as Into<(.*)>>::into', c)
    if m:
        src, dst = m.group(1), m.group(2)
        dbase = re.sub(r'<.*', '', dst).split('::')[-1]
        if dbase in ('Value', 'ValueType') :
            body = None
            for im in ex.p.meta.impls:
                if im['trait'] == 'From' and im['for_'] == dbase:
                    b = ex.p.by_impl.get((im['file'], im['line'], im['col'], 'from'))
                    if b and from_arg_matches(b, src):
                        body = b
                        break
            if body is None:
                raise Unsupported('no From impl for %s -> %s' % (src, dst))
            return ('BODY', body, args)
        if dbase == 'String':
            return SStr(to_sstr(ex, args[0]).items)
        if dbase == 'Vec':
            return VecV([copy_value(x) for x in D(args[0]).items])
        raise Unsupported('Into %s -> %s' % (src, dst))
    m = re.fullmatch(r'<(.*) as From<(.*)>>::from', c)
    if m:
        dbase = re.sub(r'<.*', '', m.group(1)).split('::')[-1]
        if dbase == 'String':
            return SStr(to_sstr(ex, args[0]).items)
        if dbase in ('Value', 'ValueType'):
            for im in ex.p.meta.impls:
                if im['trait'] == 'From' and im['for_'] == dbase:
                    b = ex.p.by_impl.get((im['file'], im['line'], im['col'], 'from'))
                    if b and from_arg_matches(b, m.group(2)):
                        return ('BODY', b, args)
            raise Unsupported('no From impl %s' % c)
    m = re.fullmatch(r'<(i16|i32|i64|i128|isize|u16|u32|u64|u128|usize|f64) as From<(i8|i16|i32|i64|u8|u16|u32|u64|bool|char|f32)>>::from', c)
    if m:
        dst, src = m.group(1), m.group(2)
        x = args[0]
        if dst == 'f64':
            if src in ('f32', 'bool', 'char'):
                raise Unsupported(c)
            return Fl(z3.fpSignedToFP(z3.RNE(), x.t, F64) if src[0] == 'i' else z3.fpUnsignedToFP(z3.RNE(), x.t, F64))
        bits = INT_BITS[dst]
        if src == 'bool':
            return Int(z3.If(x, z3.BitVecVal(1, bits), z3.BitVecVal(0, bits)), dst[0] == 'i')
        t = x.t
        if t.size() > bits:
            raise Unsupported(c)
        if t.size() < bits:
            t = z3.SignExt(bits - t.size(), t) if src[0] == 'i' else z3.ZeroExt(bits - t.size(), t)
        return Int(t, dst[0] == 'i')
    m = re.fullmatch(r'<(.*) as TryInto<(.*)>>::try_into', c)
    if m and not re.fullmatch(r'(u64|usize|i64|u32|i32)', m.group(1)):
        # blanket impl: TryInto<U> for T delegates to <U as TryFrom<T>>::try_from
        return Tail('<%s as TryFrom<%s>>::try_from' % (m.group(2), m.group(1)), list(args))
    m = re.fullmatch(r'<(u64|usize) as TryInto<(usize|i64)>>::try_into', c)
    if m:
        x = args[0]
        if m.group(2) == 'usize':
            return ok(Int(x.t, False))
        fits = z3.ULE(x.t, bv(2 ** 63 - 1, 64))
        t = B([(fits, 'ok'), (z3.Not(fits), 'err')])
        return ok(Int(x.t, True)) if t == 'ok' else err(mkunit())

    # ----- Option / Result combinators
    if c in ('Option::cloned',):
        o = args[0]
        if o.variant == 0:
            return none()
        return some(copy_value(ex.deref1(o.fields[0])))
    if c == 'Option::unwrap':
        o = args[0]
        if o.variant == 0:
            raise Panic('called `Option::unwrap()` on a `None` value')
        return o.fields[0]
    if c == 'Option::unwrap_or':
        o = args[0]
        return args[1] if o.variant == 0 else o.fields[0]
    if c == 'Result::unwrap':
        r = args[0]
        if r.variant != 0:
            raise Panic('called `Result::unwrap()` on an `Err` value')
        return r.fields[0]
    if c in ('Option::is_some', 'Option::is_none'):
        o = D(args[0])
        v = o.variant
        if isinstance(v, int):
            return z3.BoolVal((v == 1) == (c == 'Option::is_some'))
        return (v == 1) if c == 'Option::is_some' else (v == 0)
    if c in ('Result::is_ok', 'Result::is_err'):
        o = D(args[0])
        return z3.BoolVal((o.variant == 0) == (c == 'Result::is_ok'))
    if c == 'Result::ok':
        r = args[0]
        return some(r.fields[0]) if r.variant == 0 else none()
    if c == 'Result::err':
        r = args[0]
        return some(r.fields[0]) if r.variant == 1 else none()
    if c == 'Result::unwrap_or':
        r = args[0]
        return r.fields[0] if r.variant == 0 else args[1]
    if c in ('Result::expect', 'Option::expect'):
        r = args[0]
        good = (r.variant == 0) if c.startswith('Result') else (r.variant == 1)
        if not good:
            raise Panic('%s failed' % c)
        return r.fields[0]
    if c == 'Option::take':
        ref = args[0]
        cell, path = ex.deref_target(ref)
        cur = ex.load(cell, path)
        ex.store(cell, path, none())
        return cur
    if c == 'Option::replace':
        ref = args[0]
        cell, path = ex.deref_target(ref)
        cur = ex.load(cell, path)
        ex.store(cell, path, some(args[1]))
        return cur
    if c in ('Option::get_or_insert', 'Option::insert'):
        ref = args[0]
        cell, path = ex.deref_target(ref)
        cur = ex.load(cell, path)
        if cur.variant == 0 or c == 'Option::insert':
            ex.store(cell, path, some(args[1]))
        return Ref(cell, list(path) + [('downcast', 'Some'), ('field', 0)], mut=True)
    if c in ('Option::as_ref', 'Option::as_mut', 'Option::as_deref'):
        ref = args[0]
        cell, path = ex.deref_target(ref)
        cur = ex.load(cell, path)
        if cur.variant == 0:
            return none()
        return some(Ref(cell, list(path) + [('downcast', 'Some'), ('field', 0)], mut=(c == 'Option::as_mut')))
    if c in ('std::slice::from_ref', 'core::slice::from_ref', 'std::array::from_ref', 'core::array::from_ref'):
        # a shared one-element view of a value: read-only, so a copy of the element is indistinguishable
        return Ref(st.new_cell(VecV([copy_value(ex.deref1(args[0]))])), [])
    if c in ('core::bool::<impl bool>::then_some', 'core::bool::<impl bool>::then', 'bool::<impl bool>::then_some', 'bool::<impl bool>::then'):
        cond = as_bool_term(args[0])
        t = B([(cond, 'y'), (z3.Not(cond), 'n')])
        if t == 'n':
            return none()
        if c.endswith('then_some'):
            return some(args[1])
        return ('BODY', synth_static(ex, '__some_of_call'), [args[1]])
    # ----- std::mem
    if c in ('std::mem::replace', 'core::mem::replace', 'std::mem::take', 'core::mem::take'):
        cell, path = ex.deref_target(args[0])
        cur = ex.load(cell, path)
        if c.endswith('replace'):
            ex.store(cell, path, args[1])
            return cur
        # take: leave Default::default() behind
        if isinstance(cur, VecV):
            new = VecV([])
        elif isinstance(cur, SStr):
            new = SStr([])
        elif isinstance(cur, HashMapV):
            new = HashMapV([], [])
        elif isinstance(cur, Adt) and cur.ty == 'Option':
            new = none()
        elif isinstance(cur, Int):
            new = Int(z3.BitVecVal(0, cur.t.size()), cur.signed)
        elif z3.is_expr(cur) and z3.is_bool(cur):
            new = z3.BoolVal(False)
        elif isinstance(cur, Fl):
            new = Fl(z3.FPVal(0.0, F64))
        else:
            raise Unsupported('mem::take of %r' % (cur,))
        ex.store(cell, path, new)
        return cur
    if c in ('std::mem::swap', 'core::mem::swap'):
        c1, p1 = ex.deref_target(args[0])
        c2, p2 = ex.deref_target(args[1])
        v1, v2 = ex.load(c1, p1), ex.load(c2, p2)
        ex.store(c1, p1, v2)
        ex.store(c2, p2, v1)
        return mkunit()
    # ----- thread-local storage and interior mutability (state that outlives a call: C12)
    if c == 'LocalKey::new':
        return Adt('LocalKey', 0, [args[0]])
    if c in ('LocalKey::with', 'LocalKey::with_borrow', 'LocalKey::with_borrow_mut'):
        key = D(args[0])
        kname = repr(key.fields[0]) if isinstance(key, Adt) else repr(key)
        cid = st.tls.get(kname)
        cell = None
        if cid is not None:
            for a in st.anchors:
                if a.id == cid:
                    cell = a
        if cell is None:
            inits = ex.p.by_name.get('__rust_std_internal_init_fn', [])
            if len(inits) != 1:
                raise Unsupported('thread-local initialiser is ambiguous (%d candidates)' % len(inits))
            v = ex.subcall(st, inits[0], [])
            cell = st.new_cell(v)
            st.anchors.append(cell)
            st.tls[kname] = cell.id
        r = Ref(cell, [])
        if c != 'LocalKey::with':
            r = Ref(cell, [('field', 0)], mut=c.endswith('_mut'))
        return call_value(ex, st, args[1], [r])
    if re.fullmatch(r'<(RefCell|Cell)<.*> as Default>::default', c):
        raw = getattr(st, 'cur_raw', '') or ''
        mt = re.match(r'<(?:RefCell|Cell)<(.*)> as Default>::default', raw)
        inner = mt.group(1) if mt else ''
        base = re.sub(r'<.*', '', inner).split('::')[-1]
        b = ex.p.find_method('Default', base, 'default')
        if b is None:
            return Tail('<%s as Default>::default' % inner, [])      # wrapped below by the RefCell::new of the caller is impossible: report
        return Adt('RefCell', 0, [ex.subcall(st, b, [])])
    if c in ('RefCell::new', 'Cell::new'):
        return Adt('RefCell', 0, [args[0]])
    if c in ('RefCell::borrow_mut', 'RefCell::borrow', 'RefCell::try_borrow_mut', 'RefCell::try_borrow', 'RefCell::get_mut', 'RefCell::as_ptr'):
        cell, path = ex.deref_target(args[0])
        g = Adt('RefGuard', 0, [Ref(cell, list(path) + [('field', 0)], mut=('mut' in c))])
        if c in ('RefCell::get_mut',):
            return g.fields[0]
        return ok(g) if c.startswith('RefCell::try_') else g
    if re.fullmatch(r'<(RefMut|Ref|std::cell::RefMut|std::cell::Ref)<.*> as Deref(Mut)?>::deref(_mut)?', c):
        g = D(args[0])
        return g.fields[0]
    if c in ('Cell::get', 'RefCell::take', 'Cell::take', 'Cell::replace', 'RefCell::replace', 'Cell::set', 'RefCell::into_inner', 'Cell::into_inner'):
        if c.endswith('into_inner'):
            return args[0].fields[0]
        cell, path = ex.deref_target(args[0])
        cur = ex.load(cell, list(path) + [('field', 0)])
        if c == 'Cell::get':
            return copy_value(cur)
        if c in ('Cell::set',):
            ex.store(cell, list(path) + [('field', 0)], args[1])
            return mkunit()
        if c.endswith('::replace'):
            ex.store(cell, list(path) + [('field', 0)], args[1])
            return cur
        raise Unsupported(c)
    # ----- further Option / Result combinators (variants are concrete in this value model)
    if c == 'Option::transpose':
        o = args[0]
        if o.variant == 0:
            return ok(none())
        r = o.fields[0]
        return ok(some(r.fields[0])) if r.variant == 0 else Adt('Result', 1, [r.fields[0]])
    if c == 'Result::transpose':
        r = args[0]
        if r.variant == 1:
            return some(Adt('Result', 1, [r.fields[0]]))
        o = r.fields[0]
        return none() if o.variant == 0 else some(ok(o.fields[0]))
    if c in ('Option::map_or', 'Result::map_or'):
        o = args[0]
        good = (o.variant == 1) if c.startswith('Option') else (o.variant == 0)
        return call_value(ex, st, args[2], [o.fields[0]]) if good else args[1]
    if c in ('Option::map_or_else', 'Result::map_or_else'):
        o = args[0]
        if c.startswith('Option'):
            return call_value(ex, st, args[2], [o.fields[0]]) if o.variant == 1 else call_value(ex, st, args[1], [])
        return call_value(ex, st, args[2], [o.fields[0]]) if o.variant == 0 else call_value(ex, st, args[1], [o.fields[0]])
    if c in ('Option::is_some_and', 'Option::is_none_or'):
        o = args[0]
        if o.variant == 0:
            return z3.BoolVal(c == 'Option::is_none_or')
        return call_value(ex, st, args[1], [o.fields[0]])
    if c in ('Result::is_ok_and', 'Result::is_err_and'):
        r = args[0]
        if (r.variant == 0) != (c == 'Result::is_ok_and'):
            return z3.BoolVal(False)
        return call_value(ex, st, args[1], [r.fields[0]])
    if c == 'Option::or_else':
        return args[0] if args[0].variant == 1 else call_value(ex, st, args[1], [])
    if c == 'Result::or_else':
        return args[0] if args[0].variant == 0 else call_value(ex, st, args[1], [args[0].fields[0]])
    if c == 'Result::or':
        return args[0] if args[0].variant == 0 else args[1]
    if c == 'Result::and':
        return args[1] if args[0].variant == 0 else Adt('Result', 1, [args[0].fields[0]])
    if c == 'Option::xor':
        a, b = args
        return a if (a.variant == 1 and b.variant == 0) else b if (a.variant == 0 and b.variant == 1) else none()
    if c == 'Option::zip':
        a, b = args
        return some(Adt('tuple', 0, [a.fields[0], b.fields[0]])) if (a.variant == 1 and b.variant == 1) else none()
    if c == 'Option::flatten':
        return args[0].fields[0] if args[0].variant == 1 else none()
    if c in ('Option::copied', 'Result::copied', 'Result::cloned'):
        o = args[0]
        if c.startswith('Option'):
            return none() if o.variant == 0 else some(copy_value(ex.deref1(o.fields[0])))
        return ok(copy_value(ex.deref1(o.fields[0]))) if o.variant == 0 else o
    if c in ('Result::as_ref', 'Result::as_mut'):
        cell, path = ex.deref_target(args[0])
        cur = ex.load(cell, path)
        vn = 'Ok' if cur.variant == 0 else 'Err'
        return Adt('Result', cur.variant, [Ref(cell, list(path) + [('downcast', vn), ('field', 0)], mut=(c == 'Result::as_mut'))])
    if c == 'Option::filter':
        return ('BODY', synth_static(ex, '__opt_filter'), args)
    if c == 'Option::and_then':
        return ('BODY', synth_static(ex, '__and_then'), args)
    if c == 'Result::and_then':
        return ('BODY', synth_static(ex, '__res_and_then'), args)
    if c == 'Option::unwrap_or_else':
        return ('BODY', synth_static(ex, '__unwrap_or_else'), args)
    if c == 'Result::unwrap_or_else':
        return ('BODY', synth_static(ex, '__res_unwrap_or_else'), args)
    if c == 'Option::or':
        return args[0] if args[0].variant == 1 else args[1]
    if c == 'Option::and':
        return args[1] if args[0].variant == 1 else none()
    if c == 'Option::unwrap_or_default' or c == 'Result::unwrap_or_default':
        raise Unsupported(c)
    if c == 'Option::map':
        return ('BODY', synth_static(ex, '__opt_map'), args)
    if c == 'Option::ok_or_else':
        return ('BODY', synth_static(ex, '__ok_or_else'), args)
    if c == 'Option::ok_or':
        o = args[0]
        return ok(o.fields[0]) if o.variant == 1 else err(args[1])
    if c == 'Result::map':
        return ('BODY', synth_static(ex, '__map_ok'), args)
    if c == 'Result::map_err':
        return ('BODY', synth_static(ex, '__map_err'), args)
    if c in ('discriminant', 'std::mem::discriminant'):
        v = D(args[0])
        return DiscrV(bv(v.variant, 64) if isinstance(v.variant, int) else v.variant)

    # ----- Box
    if c == 'Box::new':
        return BoxV(st.new_cell(args[0]))
    if c == 'Box::new_uninit':
        cell = st.new_cell(UNINIT)
        cell.transparent = True
        return BoxV(cell)
    if c == 'std::boxed::box_assume_init_into_vec_unsafe':
        return args[0].cell.val

    # ----- ranges
    if c == 'std::ops::RangeInclusive::new':
        return Adt('RangeInclusive', 0, [args[0], args[1], z3.BoolVal(False)])
    if c == 'std::ops::RangeInclusive::start':
        r = args[0]
        return Ref(r.cell, list(r.path) + [('field', 0)])
    if c == 'std::ops::RangeInclusive::end':
        r = args[0]
        return Ref(r.cell, list(r.path) + [('field', 1)])
    if c == 'std::ops::RangeInclusive::contains':
        r = D(args[0])
        x = D(args[1])
        return z3.And(z3.ULE(r.fields[0].t, x.t), z3.ULE(x.t, r.fields[1].t))

    # ----- Vec / slices
    if c in ('Vec::new',):
        return VecV([])
    if c == 'Vec::with_capacity':
        return VecV([])
    if c == 'Vec::push':
        D(args[0]).items.append(args[1])
        return mkunit()
    if c == 'Vec::pop':
        v = D(args[0])
        return some(v.items.pop()) if v.items else none()
    if c in ('Vec::as_slice', 'Vec::as_mut_slice', 'Vec::as_ref', '<Vec<T> as AsRef<[T]>>::as_ref', 'Vec::iter', 'Vec::iter_mut'):
        if c in ('Vec::iter', 'Vec::iter_mut'):
            return IterV(args[0], 0, len(D(args[0]).items))
        return args[0]
    if c in ('Vec::is_empty',):
        return z3.BoolVal(len(D(args[0]).items) == 0)
    if c == 'Vec::clear':
        D(args[0]).items[:] = []
        return mkunit()
    if c == 'Vec::split_off':
        v = D(args[0])
        at = ex.concrete_int(args[1])
        if at > len(v.items):
            raise Panic('split_off: `at` out of bounds')
        tail = VecV(v.items[at:])
        del v.items[at:]
        return tail
    if c == 'Vec::append':
        v, o_ = D(args[0]), D(args[1])
        v.items.extend(o_.items)
        o_.items[:] = []
        return mkunit()
    if c in ('Vec::last_mut', 'Vec::first_mut', 'Vec::first', 'Vec::last'):
        end = ex.ref_chain_end(args[0])
        v = D(args[0])
        if not v.items:
            return none()
        return some(Ref(end.cell, list(end.path) + [('index', 0 if 'first' in c else len(v.items) - 1)], mut=c.endswith('_mut')))
    if c == 'Vec::truncate':
        v = D(args[0])
        n = ex.concrete_int(args[1])
        del v.items[n:]
        return mkunit()
    if c in ('Vec::insert', 'Vec::remove'):
        v = D(args[0])
        i = ex.concrete_int(args[1])
        if c == 'Vec::insert':
            if i > len(v.items):
                raise Panic('insertion index out of bounds')
            v.items.insert(i, args[2])
            return mkunit()
        if i >= len(v.items):
            raise Panic('removal index out of bounds')
        return v.items.pop(i)
    if c in ('Vec::extend_from_slice',):
        D(args[0]).items.extend(copy_value(x) for x in D(args[1]).items)
        return mkunit()
    if c in ('core::slice::<impl [T]>::to_vec', 'slice::<impl [T]>::to_vec', '<[T] as ToOwned>::to_owned') or re.fullmatch(r'(core::)?slice::<impl \[.*\]>::to_vec', c):
        return VecV([copy_value(x) for x in D(args[0]).items])
    if c == 'Vec::swap_remove':
        v = D(args[0])
        i = args[1]
        n = len(v.items)
        t = z3.simplify(i.t)
        if not z3.is_bv_value(t):
            opts = [(i.t == bv(k, 64), k) for k in range(n)] + [(z3.UGE(i.t, bv(n, 64)), 'panic')]
            k = B(opts)
        else:
            k = t.as_long() if t.as_long() < n else 'panic'
        if k == 'panic':
            raise Panic('swap_remove index out of bounds')
        item = v.items[k]
        last = v.items.pop()
        if k < len(v.items):
            v.items[k] = last
        return item
    if c in ('Vec::len',) or re.fullmatch(r'core::slice::<impl \[.*\]>::len', c):
        return usize(len(D(args[0]).items))
    if re.fullmatch(r'<Vec<.*> as Deref(Mut)?>::deref(_mut)?', c):
        return args[0]
    if re.fullmatch(r'<(Vec<.*>|\[.*\]) as Index<usize>>::index', c) or re.fullmatch(r'<(Vec<.*>|\[.*\]) as IndexMut<usize>>::index_mut', c):
        v = D(args[0])
        i = args[1]
        n = len(v.items)
        t = z3.simplify(i.t)
        if z3.is_bv_value(t):
            k = t.as_long() if t.as_long() < n else 'panic'
        else:
            k = B([(i.t == bv(j, 64), j) for j in range(n)] + [(z3.UGE(i.t, bv(n, 64)), 'panic')])
        if k == 'panic':
            raise Panic('index out of bounds: the len is %d' % n)
        r = args[0]
        return Ref(r.cell, list(r.path) + [('index', k)])
    mm = re.fullmatch(r'<(?:\[.*\]|Vec<.*>) as Index<(?:std::ops::)?(Range|RangeTo|RangeInclusive|RangeToInclusive|RangeFull)(?:<usize>)?>>::index', c)
    if mm:
        v = D(args[0])
        n = len(v.items)
        rng = args[1]
        kind_ = mm.group(1)
        lo = rng.fields[0] if kind_ in ('Range', 'RangeInclusive') else usize(0)
        hi = {'Range': lambda: rng.fields[1], 'RangeTo': lambda: rng.fields[0], 'RangeInclusive': lambda: Int(rng.fields[1].t + 1, False),
              'RangeToInclusive': lambda: Int(rng.fields[0].t + 1, False), 'RangeFull': lambda: usize(n)}[kind_]()
        opts = []
        for i in range(n + 1):
            for j in range(i, n + 1):
                opts.append((z3.And(lo.t == bv(i, 64), hi.t == bv(j, 64)), (i, j)))
        opts.append((z3.Not(z3.Or(*[o[0] for o in opts])), 'panic'))
        t = B(opts)
        if t == 'panic':
            raise Panic('slice index out of range (or start > end)')
        return Ref(st.new_cell(VecV(v.items[t[0]:t[1]])), [])
    if re.fullmatch(r'<(?:\[.*\]|Vec<.*>) as Index<(?:std::ops::)?RangeFrom<usize>>>::index', c):
        v = D(args[0])
        i = args[1].fields[0]
        n = len(v.items)
        t = z3.simplify(i.t)
        if z3.is_bv_value(t):
            k = t.as_long() if t.as_long() <= n else 'panic'
        else:
            k = B([(i.t == bv(j, 64), j) for j in range(n + 1)] + [(z3.UGT(i.t, bv(n, 64)), 'panic')])
        if k == 'panic':
            raise Panic('range start index out of range for slice')
        return Ref(st.new_cell(VecV(v.items[k:])), [])
    m = re.fullmatch(r'core::slice::<impl \[.*\]>::(\w+)', c)
    if m:
        f = m.group(1)
        r = ex.ref_chain_end(args[0]) if isinstance(args[0], Ref) else args[0]
        v = D(r)
        if f in ('iter', 'iter_mut'):
            return IterV(r, 0, len(v.items))
        if f in ('last', 'last_mut'):
            return some(Ref(r.cell, list(r.path) + [('index', len(v.items) - 1)])) if v.items else none()
        if f in ('first', 'first_mut'):
            return some(Ref(r.cell, list(r.path) + [('index', 0)])) if v.items else none()
        if f == 'is_empty':
            return z3.BoolVal(len(v.items) == 0)
        if f == 'reverse':
            v.items.reverse()
            return mkunit()
        if f == 'swap':
            i_, j_ = ex.concrete_int(args[1]), ex.concrete_int(args[2])
            if i_ >= len(v.items) or j_ >= len(v.items):
                raise Panic('swap index out of bounds')
            v.items[i_], v.items[j_] = v.items[j_], v.items[i_]
            return mkunit()
        if f in ('split_first', 'split_last'):
            if not v.items:
                return none()
            if f == 'split_first':
                # the rest is a view into the same vector (not a copy): references obtained through it alias the original elements
                return some(Adt('tuple', 0, [Ref(r.cell, list(r.path) + [('index', 0)]), Ref(r.cell, list(r.path) + [('subslice', 1, 0, True)])]))
            return some(Adt('tuple', 0, [Ref(r.cell, list(r.path) + [('index', len(v.items) - 1)]), Ref(r.cell, list(r.path) + [('subslice', 0, 1, True)])]))
        if f == 'get':
            i = args[1]
            n = len(v.items)
            t = z3.simplify(i.t)
            if z3.is_bv_value(t):
                k = t.as_long() if t.as_long() < n else 'none'
            else:
                k = B([(i.t == bv(j, 64), j) for j in range(n)] + [(z3.UGE(i.t, bv(n, 64)), 'none')])
            if k == 'none':
                return none()
            return some(Ref(r.cell, list(r.path) + [('index', k)]))
        if f == 'contains':
            n = len(v.items)
            if n == 0:
                return z3.BoolVal(False)
            return ('BODY', synth_contains(ex, n), [r, args[1]])
    if re.fullmatch(r'<&(mut )?(Vec<.*>|\[.*\]) as IntoIterator>::into_iter', c):
        r = args[0]
        return IterV(r, 0, len(D(r).items))
    if re.fullmatch(r'<Vec<.*> as IntoIterator>::into_iter', c):
        return OwnIter(args[0].items)
    if re.fullmatch(r'<&mut .* as IntoIterator>::into_iter', c):
        return args[0]
    if re.fullmatch(r'<.* as IntoIterator>::into_iter', c) and isinstance(args[0], (IterV, OwnIter, CharsV, PeekV, AdaptV)):
        return args[0]
    if re.fullmatch(r'<HashMap<.*> as Clone>::clone_from', c):
        dst = D(args[0])
        src = copy_value(D(args[1]))
        dst.keys[:] = src.keys
        dst.vals[:] = src.vals
        return mkunit()
    if re.fullmatch(r'<(Vec<.*>|std::string::String) as Clone>::clone_from', c):
        dst = D(args[0])
        src = copy_value(D(args[1]))
        dst.items[:] = src.items
        return mkunit()
    if re.fullmatch(r'<Vec<.*> as Extend<.*>>::extend', c):
        v = D(args[0])
        src = args[1]
        if isinstance(src, Adt) and src.ty == 'Option':
            if src.variant == 1:
                v.items.append(src.fields[0])
            return mkunit()
        if isinstance(src, VecV):
            v.items.extend(src.items)
            return mkunit()
        if isinstance(src, OwnIter):
            v.items.extend(src.items[src.pos:])
            return mkunit()
        if isinstance(src, IterV):
            v.items.extend(Ref(src.ref.cell, list(src.ref.path) + [('index', i)]) for i in range(src.pos, src.end))
            return mkunit()
        if isinstance(src, (AdaptV, PeekV, CharsV)):
            # a lazy adaptor: drain it through its own next(), then append
            cellv = st.new_cell(src)
            drained = ex.subcall(st, synth_static(ex, '__drain'), [Ref(cellv, [])])
            v.items.extend(drained.items)
            return mkunit()
        raise Unsupported('extend with %r' % (src,))
    if c == 'std::iter::empty':
        return OwnIter([])

    # ----- iterators
    if c.endswith(' as Iterator>::by_ref'):
        return args[0]
    if c.endswith(' as Iterator>::peekable'):
        return PeekV(args[0])
    if c in ('__iter_next',) or re.fullmatch(r'<.* as Iterator>::next', c):
        it = D(args[0])
        return iter_next(ex, st, it, args[0], c)
    if c in ('once', 'std::iter::once', 'core::iter::once'):
        return OwnIter([args[0]])
    if c in ('std::iter::repeat_n', 'core::iter::repeat_n') and isinstance(args[1], Int):
        return OwnIter([copy_value(args[0]) for _ in range(ex.concrete_int(args[1]))])
    if c.endswith(' as Iterator>::zip'):
        return AdaptV('zip', args[0], args[1])
    if c in ('std::iter::from_fn', 'core::iter::from_fn'):
        return AdaptV('from_fn', None, args[0])
    if c in ('Peekable::next_if', 'Peekable::next_if_eq'):
        return ('BODY', synth_static(ex, '__peek_next_if' if c.endswith('next_if') else '__peek_next_if_eq'), args)
    if c == 'Peekable::peek':
        pk = D(args[0])
        it = pk.it
        if isinstance(it, CharsV):
            if it.pos >= it.end:
                return none()
            return some(Ref(st.new_cell(D(it.ref).items[it.pos]), []))
        if isinstance(it, IterV):
            if it.pos >= it.end:
                return none()
            return some(Ref(st.new_cell(Ref(it.ref.cell, list(it.ref.path) + [('index', it.pos)])), []))
        if isinstance(it, OwnIter):
            if it.pos >= len(it.items):
                return none()
            end = ex.ref_chain_end(args[0])
            return some(Ref(end.cell, list(end.path) + [('attr', 'it'), ('attr', 'items'), ('index', it.pos)]))
        raise Unsupported('peek on %r' % (it,))
    if c.endswith(' as Iterator>::filter_map'):
        return AdaptV('filter_map', args[0], args[1])
    if c.endswith(' as Iterator>::map'):
        return AdaptV('map', args[0], args[1])
    if c.endswith(' as Iterator>::cloned'):
        return AdaptV('cloned', args[0], None)
    if c == '__adapt_inner_next':
        ad = D(args[0])
        end = ex.ref_chain_end(args[0])
        return iter_next(ex, st, ad.it, Ref(end.cell, list(end.path) + [('attr', 'it')]), '__iter_next')
    if c == '__adapt_second_next':
        ad = D(args[0])
        end = ex.ref_chain_end(args[0])
        return iter_next(ex, st, ad.fn, Ref(end.cell, list(end.path) + [('attr', 'fn')]), '__iter_next')
    if c == '__fm_cur_next':
        ad = D(args[0])
        if ad.cur is None:
            return none()
        end = ex.ref_chain_end(args[0])
        return iter_next(ex, st, ad.cur, Ref(end.cell, list(end.path) + [('attr', 'cur')]), '__iter_next')
    if c == '__fm_set_cur':
        ad = D(args[0])
        inner = args[1]
        if isinstance(inner, VecV):
            inner = OwnIter(inner.items)
        elif isinstance(inner, SStr):
            inner = OwnIter(inner.items)
        elif isinstance(inner, Adt) and inner.ty == 'Option':
            inner = OwnIter(inner.fields if inner.variant == 1 else [])
        ad.cur = inner
        return mkunit()
    if c == '__adapt_call':
        ad = D(args[0])
        return call_value(ex, st, ad.fn, [args[1]])

    # ----- HashMap
    md = re.fullmatch(r'<(bool|i8|i16|i32|i64|isize|u8|u16|u32|u64|usize|f64|std::string::String|String|Vec<.*>|std::option::Option<.*>|Option<.*>|\(\)) as Default>::default', c)
    if md:
        t = md.group(1)
        if t == 'bool':
            return z3.BoolVal(False)
        if t == 'f64':
            return Fl(z3.FPVal(0.0, F64))
        if t in INT_BITS:
            return Int(z3.BitVecVal(0, INT_BITS[t]), t[0] == 'i')
        if t.endswith('String'):
            return SStr([])
        if t.startswith('Vec<'):
            return VecV([])
        if t == '()':
            return mkunit()
        return none()
    if re.fullmatch(r'<HashMap<.*> as Default>::default', c) or c == 'HashMap::new':
        return HashMapV()
    if re.fullmatch(r'<HashMap<.*> as Clone>::clone', c):
        return copy_value(D(args[0]))
    if c == 'HashMap::clear':
        m_ = D(args[0])
        m_.keys[:] = []
        m_.vals[:] = []
        return mkunit()
    if c in ('HashMap::get', 'HashMap::get_mut', 'HashMap::contains_key'):
        r = args[0]
        m_ = D(r)
        key = to_sstr(ex, args[1])
        i = map_lookup(ex, st, m_, key)
        if c == 'HashMap::contains_key':
            return z3.BoolVal(i is not None)
        if i is None:
            return none()
        return some(Ref(r.cell, list(r.path) + [('mapval', i)]))
    # ----- the entry API
    if c == 'HashMap::entry':
        mref = ex.ref_chain_end(args[0])
        m = D(args[0])
        key = to_sstr(ex, args[1])
        i = map_lookup(ex, st, m, key)
        if i is None:
            return Adt('Entry', 1, [Adt('VacantEntry', 0, [mref, SStr(list(key.items))])])
        return Adt('Entry', 0, [Adt('OccupiedEntry', 0, [mref, usize(i)])])
    if c.startswith(('OccupiedEntry::', 'std::collections::hash_map::OccupiedEntry::', 'VacantEntry::', 'std::collections::hash_map::VacantEntry::',
                     'std::collections::hash_map::Entry::', 'Entry::')) and args:
        meth = c.split('::')[-1]
        e = D(args[0]) if isinstance(args[0], Ref) else args[0]
        if isinstance(e, Adt) and e.ty == 'Entry':
            inner = e.fields[0]
            occupied = e.variant == 0
            if meth == 'key':
                e = inner
            elif meth in ('or_insert', 'or_insert_with', 'or_default', 'or_insert_with_key'):
                mref = inner.fields[0]
                m = ex.load(mref.cell, mref.path)
                if occupied:
                    return Ref(mref.cell, list(mref.path) + [('mapval', inner.fields[1].t.as_long())], mut=True)
                if meth == 'or_insert':
                    m.keys.append(inner.fields[1])
                    m.vals.append(args[1])
                    return Ref(mref.cell, list(mref.path) + [('mapval', len(m.vals) - 1)], mut=True)
                raise Unsupported(c + ' on a vacant entry')
            elif meth == 'and_modify':
                if not occupied:
                    return e
                raise Unsupported(c + ' on an occupied entry')
            else:
                raise Unsupported(c)
        if isinstance(e, Adt) and e.ty == 'OccupiedEntry':
            mref = e.fields[0]
            idx = e.fields[1].t.as_long()
            m = ex.load(mref.cell, mref.path)
            slot = Ref(mref.cell, list(mref.path) + [('mapval', idx)])
            if meth == 'get':
                return slot
            if meth in ('get_mut', 'into_mut'):
                return Ref(slot.cell, slot.path, mut=True)
            if meth == 'key':
                return Ref(mref.cell, list(mref.path) + [('mapkey', idx)])
            if meth == 'insert':
                old_v = m.vals[idx]
                m.vals[idx] = args[1]
                return old_v
            if meth in ('remove', 'remove_entry'):
                k_, v_ = m.keys.pop(idx), m.vals.pop(idx)
                return v_ if meth == 'remove' else Adt('tuple', 0, [k_, v_])
            raise Unsupported(c)
        if isinstance(e, Adt) and e.ty == 'VacantEntry':
            mref = e.fields[0]
            m = ex.load(mref.cell, mref.path)
            if meth == 'insert':
                m.keys.append(e.fields[1])
                m.vals.append(args[1])
                return Ref(mref.cell, list(mref.path) + [('mapval', len(m.vals) - 1)], mut=True)
            if meth == 'key':
                return Ref(st.new_cell(e.fields[1]), [])
            if meth == 'into_key':
                return e.fields[1]
            raise Unsupported(c)
    if c == 'HashMap::insert':
        r = args[0]
        m_ = D(r)
        key = args[1]
        i = map_lookup(ex, st, m_, key)
        if i is None:
            m_.keys.append(key)
            m_.vals.append(args[2])
            return none()
        old = m_.vals[i]
        m_.vals[i] = args[2]
        return some(old)
    if c == 'HashMap::remove':
        m_ = D(args[0])
        key = to_sstr(ex, args[1])
        i = map_lookup(ex, st, m_, key)
        if i is None:
            return none()
        m_.keys.pop(i)
        return some(m_.vals.pop(i))
    if c == 'HashMap::iter':
        r = args[0]
        m_ = D(r)
        return OwnIter([Adt('tuple', 0, [Ref(r.cell, list(r.path) + [('mapkey', i)]), Ref(r.cell, list(r.path) + [('mapval', i)])])
                        for i in range(len(m_.keys))])
    if c == 'HashMap::keys':
        r = args[0]
        m_ = D(r)
        return OwnIter([Ref(r.cell, list(r.path) + [('mapkey', i)]) for i in range(len(m_.keys))])
    if c == 'HashMap::len':
        return usize(len(D(args[0]).keys))

    # ----- strings
    if c in ('std::string::String::new',):
        return SStr([])
    if c == 'std::string::String::with_capacity':
        return SStr([])
    if c == 'std::string::String::push':
        D(args[0]).items.append(args[1])
        return mkunit()
    if c == 'std::string::String::push_str':
        src = to_sstr(ex, args[1]).items
        D(args[0]).items.extend(src)
        return mkunit()
    if c in ('std::string::String::len', 'core::str::<impl str>::len'):
        return Int(str_byte_len(to_sstr(ex, args[0])), False)
    if c in ('std::string::String::as_str', '<std::string::String as Deref>::deref', '<std::string::String as AsRef<str>>::as_ref',
             'std::string::String::as_mut_str'):
        return args[0]
    if c in ('<str as ToString>::to_string', '<std::string::String as ToString>::to_string', '<&str as Into<std::string::String>>::into',
             '<std::string::String as From<&str>>::from', 'core::str::<impl str>::to_string', 'str::<impl str>::to_owned',
             '<str as ToOwned>::to_owned'):
        return SStr(to_sstr(ex, args[0]).items)
    if c == '<char as ToString>::to_string':
        return SStr([D(args[0])])
    if c == '<bool as ToString>::to_string':
        b = D(args[0])
        t = B([(b, 't'), (z3.Not(b), 'f')])
        return sstr('true' if t == 't' else 'false')
    m = re.fullmatch(r'<(.*) as ToString>::to_string', c)
    if m:
        v = D(args[0])
        if isinstance(v, Int):
            return SStr(fmt_int_items(v))
        if isinstance(v, Fl):
            return SStr(fmt_f64_items(v))
        if isinstance(v, Adt):
            return ('BODY', synth_static(ex, '__to_string'), [args[0]])
        raise Unsupported('to_string on %r' % (v,))
    if c == 'core::str::<impl str>::chars':
        v = to_sstr(ex, args[0])
        if not v.is_plain():
            raise Unsupported('chars() over a string with an opaque segment')
        return CharsV(args[0], 0, len(v.items))
    if c == 'char::methods::<impl char>::is_whitespace':
        return is_ws(args[0].t)
    mm = re.fullmatch(r'char::methods::<impl char>::(\w+)', c)
    if mm:
        f = mm.group(1)
        t = D(args[0]).t
        rng = lambda a, b: z3.And(z3.UGE(t, ord(a)), z3.ULE(t, ord(b)))
        if f == 'is_ascii':
            return z3.ULT(t, 128)
        if f == 'is_ascii_digit':
            return rng('0', '9')
        if f == 'is_ascii_whitespace':
            return z3.Or(t == 0x20, t == 0x09, t == 0x0a, t == 0x0c, t == 0x0d)
        if f == 'is_ascii_alphabetic':
            return z3.Or(rng('a', 'z'), rng('A', 'Z'))
        if f == 'is_ascii_alphanumeric':
            return z3.Or(rng('a', 'z'), rng('A', 'Z'), rng('0', '9'))
        if f == 'is_ascii_hexdigit':
            return z3.Or(rng('0', '9'), rng('a', 'f'), rng('A', 'F'))
        if f == 'is_ascii_lowercase':
            return rng('a', 'z')
        if f == 'is_ascii_uppercase':
            return rng('A', 'Z')
        if f == 'is_ascii_punctuation':
            return z3.Or(rng('!', '/'), rng(':', '@'), rng('[', '`'), rng('{', '~'))
        if f == 'is_ascii_control':
            return z3.Or(z3.ULT(t, 0x20), t == 0x7f)
        if f in ('to_lowercase', 'to_uppercase'):
            tt = z3.simplify(t)
            if z3.is_bv_value(tt) and tt.as_long() < 128:
                ch = chr(tt.as_long())
                return OwnIter([mkchar(ch.lower() if f == 'to_lowercase' else ch.upper())])
            return OwnIter([Opaque('char_' + f, (Int(t, False),))])
        if f == 'to_ascii_lowercase':
            return Int(z3.If(rng('A', 'Z'), t + 32, t), False)
        if f == 'to_ascii_uppercase':
            return Int(z3.If(rng('a', 'z'), t - 32, t), False)
        if f == 'eq_ignore_ascii_case':
            u = D(args[1]).t
            low = lambda x: z3.If(z3.And(z3.UGE(x, ord('A')), z3.ULE(x, ord('Z'))), x + 32, x)
            return low(t) == low(u)
        if f == 'is_digit':
            radix = ex.concrete_int(args[1])
            d = z3.Or(z3.And(z3.UGE(t, ord('0')), z3.ULE(t, ord('0') + min(radix, 10) - 1)))
            if radix > 10:
                d = z3.Or(d, z3.And(z3.UGE(t, ord('a')), z3.ULE(t, ord('a') + radix - 11)), z3.And(z3.UGE(t, ord('A')), z3.ULE(t, ord('A') + radix - 11)))
            return d
        if f == 'to_digit':
            radix = ex.concrete_int(args[1])
            isd = z3.And(z3.UGE(t, ord('0')), z3.ULE(t, ord('0') + min(radix, 10) - 1))
            val = t - ord('0')
            if radix > 10:
                lo = z3.And(z3.UGE(t, ord('a')), z3.ULE(t, ord('a') + radix - 11))
                up = z3.And(z3.UGE(t, ord('A')), z3.ULE(t, ord('A') + radix - 11))
                val = z3.If(lo, t - ord('a') + 10, z3.If(up, t - ord('A') + 10, val))
                isd = z3.Or(isd, lo, up)
            if B([(isd, 'digit'), (z3.Not(isd), 'nodigit')]) == 'digit':
                return some(Int(val, False))
            return none()
        if f in ('is_alphabetic', 'is_alphanumeric', 'is_numeric', 'is_lowercase', 'is_uppercase', 'is_control'):
            return ex.uf('char_' + f, z3.BitVecSort(32), z3.BoolSort())(t)
        if f == 'len_utf8':
            return Int(utf8_width(z3.ZeroExt(32, t)), False)
    if c == 'core::str::<impl str>::eq_ignore_ascii_case':
        a, b = to_sstr(ex, args[0]), to_sstr(ex, args[1])
        if not (a.is_plain() and b.is_plain()):
            raise Unsupported('eq_ignore_ascii_case with opaque segment')
        la, lb = str_byte_len(a), str_byte_len(b)
        if len(a.items) != len(b.items):
            # different char counts can still have equal byte lengths only with non-ASCII chars, which never compare equal to ASCII-folded others unless identical
            return z3.BoolVal(False) if True else None
        low = lambda x: z3.If(z3.And(z3.UGE(x, ord('A')), z3.ULE(x, ord('Z'))), x + 32, x)
        return z3.And(*[low(x.t) == low(y.t) for x, y in zip(a.items, b.items)]) if a.items else z3.BoolVal(True)
    if c in ('core::str::<impl str>::is_empty', 'std::string::String::is_empty'):
        return z3.BoolVal(len(to_sstr(ex, args[0]).items) == 0)
    if c in ('core::str::<impl str>::starts_with', 'core::str::<impl str>::ends_with'):
        s = to_sstr(ex, args[0])
        pat = D(args[1])
        if isinstance(pat, Int):
            pat = SStr([pat])
        if isinstance(pat, (Closure, FnItem)):
            if not s.items:
                return z3.BoolVal(False)
            return call_value(ex, st, pat, [s.items[0] if c.endswith('starts_with') else s.items[-1]])
        if not isinstance(pat, SStr):
            raise Unsupported('starts_with pattern %r' % (pat,))
        n = len(pat.items)
        if len(s.items) < n:
            return z3.BoolVal(False)
        seg = s.items[:n] if c.endswith('starts_with') else s.items[len(s.items) - n:]
        return z3.And(*[x.t == y.t for x, y in zip(seg, pat.items)]) if n else z3.BoolVal(True)
    if c == 'core::str::<impl str>::contains':
        s = to_sstr(ex, args[0])
        pat = D(args[1])
        if isinstance(pat, Int):
            return z3.Or(*[x.t == pat.t for x in s.items]) if s.items else z3.BoolVal(False)
        if isinstance(pat, VecV) and all(isinstance(p_, Int) for p_ in pat.items):
            return z3.Or(*[x.t == p_.t for x in s.items for p_ in pat.items]) if (s.items and pat.items) else z3.BoolVal(False)
        if isinstance(pat, SStr):
            n = len(pat.items)
            alts = [z3.And(*[x.t == y.t for x, y in zip(s.items[i:i + n], pat.items)]) if n else z3.BoolVal(True) for i in range(0, len(s.items) - n + 1)]
            return z3.Or(*alts) if alts else z3.BoolVal(False)
        raise Unsupported('contains pattern %r' % (pat,))
    if c == 'core::str::<impl str>::is_char_boundary':
        s = to_sstr(ex, args[0])
        pref = [bv(0, 64)]
        for ch in s.items:
            pref.append(pref[-1] + utf8_width(z3.ZeroExt(32, ch.t)))
        return z3.Or(*[args[1].t == p_ for p_ in pref])
    if c in ('<Chars<\'_> as Iterator>::count', '<std::str::Chars<\'_> as Iterator>::count'):
        it = args[0]
        return usize(it.end - it.pos)
    if c.endswith(' as Iterator>::count'):
        it = args[0]
        if isinstance(it, (IterV, CharsV)):
            return usize(it.end - it.pos)
        if isinstance(it, OwnIter):
            return usize(len(it.items) - it.pos)
        raise Unsupported('count on %r' % (it,))
    if c.endswith(' as Iterator>::rev') or c.endswith(' as DoubleEndedIterator>::rev'):
        it = args[0]
        if isinstance(it, IterV):
            v = D(it.ref)
            return OwnIter([Ref(it.ref.cell, list(it.ref.path) + [('index', j)]) for j in range(it.end - 1, it.pos - 1, -1)])
        if isinstance(it, CharsV):
            v = D(it.ref)
            return OwnIter(list(reversed(v.items[it.pos:it.end])))
        if isinstance(it, OwnIter):
            return OwnIter(list(reversed(it.items[it.pos:])))
        raise Unsupported('rev on %r' % (it,))
    if c.endswith(' as Iterator>::enumerate'):
        it = args[0]
        if isinstance(it, IterV):
            return OwnIter([Adt('tuple', 0, [usize(j - it.pos), Ref(it.ref.cell, list(it.ref.path) + [('index', j)])]) for j in range(it.pos, it.end)])
        if isinstance(it, CharsV):
            v = D(it.ref)
            return OwnIter([Adt('tuple', 0, [usize(j - it.pos), v.items[j]]) for j in range(it.pos, it.end)])
        if isinstance(it, OwnIter):
            return OwnIter([Adt('tuple', 0, [usize(j), x]) for j, x in enumerate(it.items[it.pos:])])
        raise Unsupported('enumerate on %r' % (it,))
    if c.endswith(' as Iterator>::skip') or c.endswith(' as Iterator>::take'):
        it = copy_value(args[0])
        n = ex.concrete_int(args[1])
        skip = c.endswith('skip')
        if isinstance(it, (IterV, CharsV)):
            if skip:
                it.pos = min(it.end, it.pos + n)
            else:
                it.end = min(it.end, it.pos + n)
            return it
        if isinstance(it, OwnIter):
            return OwnIter(it.items[it.pos + n:] if skip else it.items[it.pos:it.pos + n])
        raise Unsupported('skip/take on %r' % (it,))
    if c.endswith(' as Iterator>::chain'):
        return AdaptV('chain', args[0], args[1])
    if c.endswith(' as Iterator>::flat_map'):
        return AdaptV('flat_map', args[0], args[1])
    if c.endswith(' as Iterator>::filter'):
        return AdaptV('filter', args[0], args[1])
    if c.endswith(' as Iterator>::any'):
        return ('BODY', synth_static(ex, '__iter_any'), args)
    if c.endswith(' as Iterator>::rposition'):
        return ('BODY', synth_static(ex, '__iter_rposition'), args)
    if c.endswith(' as DoubleEndedIterator>::rfind') or c.endswith(' as Iterator>::rfind'):
        return ('BODY', synth_static(ex, '__iter_rfind'), args)
    if c == '__iter_len' or c.endswith(' as ExactSizeIterator>::len'):
        it = D(args[0])
        if isinstance(it, PeekV):
            it = it.it
        if isinstance(it, (IterV, CharsV)):
            return usize(it.end - it.pos)
        if isinstance(it, OwnIter):
            return usize(len(it.items) - it.pos)
        raise Unsupported('len of %r' % (it,))
    if c.endswith(' as Iterator>::find'):
        return ('BODY', synth_static(ex, '__iter_find'), args)
    if c.endswith(' as Iterator>::position'):
        return ('BODY', synth_static(ex, '__iter_position'), args)
    if c.endswith(' as Iterator>::find_map'):
        return ('BODY', synth_static(ex, '__iter_find_map'), args)
    if c.endswith(' as Iterator>::try_fold'):
        raw = getattr(st, 'cur_raw', '') or ''
        st.try_kind = 'Option' if re.search(r'try_fold::<.*std::option::Option<|try_fold::<.*, Option<', raw) else 'Result'
        return ('BODY', synth_static(ex, '__try_fold'), args)
    if c.endswith(' as Iterator>::fold'):
        return ('BODY', synth_static(ex, '__fold'), [Ref(st.new_cell(args[0]), []), args[1], args[2]])
    if c == '__try_is_output':
        r = args[0]
        if not isinstance(r, Adt) or r.ty not in ('Result', 'Option') or not isinstance(r.variant, int):
            raise Unsupported('try_fold over %r' % (r,))
        return z3.BoolVal(r.variant == (0 if r.ty == 'Result' else 1))
    if c == '__try_output':
        return args[0].fields[0]
    if c == '__try_residual':
        r = args[0]
        return none() if r.ty == 'Option' else Adt('Result', 1, [r.fields[0]])
    if c == '__try_from_output':
        return some(args[0]) if getattr(st, 'try_kind', 'Result') == 'Option' else ok(args[0])
    if c.endswith(' as Iterator>::all'):
        return ('BODY', synth_static(ex, '__iter_all'), args)
    if c.endswith(' as Iterator>::collect') or c.endswith(' as Iterator>::last'):
        if c.endswith('collect'):
            it = args[0]
            raw = getattr(st, 'cur_raw', '') or ''
            if 'collect::<std::string::String>' in raw or 'collect::<String>' in raw:
                return ('BODY', synth_static(ex, '__collect_string'), [Ref(st.new_cell(it), [])])
            mt = re.search(r'collect::<(?:std::result::|core::result::)?(Result|Option|std::option::Option)<', raw)
            if mt:
                st.try_kind = 'Option' if 'Option' in mt.group(1) else 'Result'
                to_string = re.search(r'collect::<(?:std::result::|core::result::)?(?:Result|Option|std::option::Option)<(?:std::string::)?String\b', raw) is not None
                return ('BODY', synth_static(ex, '__collect_try_string' if to_string else '__collect_try'), [Ref(st.new_cell(it), [])])
            return ('BODY', synth_static(ex, '__drain'), [Ref(st.new_cell(it), [])])
        raise Unsupported(c)
    if c == '__vec_to_string':
        v = args[0]
        return SStr(v.items)
    if c.endswith(' as Iterator>::next_back') or c.endswith(' as DoubleEndedIterator>::next_back') or c == '__iter_next_back':
        it = D(args[0])
        if isinstance(it, IterV):
            if it.pos >= it.end:
                return none()
            it.end -= 1
            return some(Ref(it.ref.cell, list(it.ref.path) + [('index', it.end)]))
        if isinstance(it, CharsV):
            if it.pos >= it.end:
                return none()
            it.end -= 1
            return some(D(it.ref).items[it.end])
        if isinstance(it, OwnIter):
            if it.pos >= len(it.items):
                return none()
            return some(it.items.pop())
        raise Unsupported('next_back on %r' % (it,))
    if c in ('Chars::as_str', 'std::str::Chars::as_str', 'core::str::Chars::as_str'):
        it = D(args[0])
        if not isinstance(it, CharsV):
            raise Unsupported('as_str on %r' % (it,))
        return Ref(st.new_cell(SStr(list(D(it.ref).items[it.pos:it.end]))), [])
    if c in ('core::str::<impl str>::split_once', 'core::str::<impl str>::find', 'core::str::<impl str>::rsplit_once', 'core::str::<impl str>::rfind'):
        s = to_sstr(ex, args[0])
        if not s.is_plain():
            raise Unsupported('%s on a string with an opaque segment' % c)
        pat = args[1]
        pv = D(pat) if isinstance(pat, Ref) else pat
        if isinstance(pv, Int):
            pitems = [pv]
        elif isinstance(pv, SStr) and pv.is_plain() and pv.items:
            pitems = pv.items
        else:
            raise Unsupported('%s with pattern %r' % (c, pv))
        m_ = len(pitems)
        n_ = len(s.items)
        cands = list(range(0, n_ - m_ + 1))
        if c.split('::')[-1].startswith('r'):
            cands.reverse()
        opts, prior = [], []
        for i in cands:
            hit = z3.And(*[s.items[i + j].t == pitems[j].t for j in range(m_)])
            opts.append((z3.And(hit, *[z3.Not(p_) for p_ in prior]) if prior else hit, i))
            prior.append(hit)
        opts.append((z3.And(*[z3.Not(p_) for p_ in prior]) if prior else z3.BoolVal(True), None))
        i = B(opts)
        if i is None:
            return none()
        if c.endswith('find'):
            return some(Int(str_byte_len(SStr(s.items[:i])), False))
        return some(Adt('tuple', 0, [Ref(st.new_cell(SStr(list(s.items[:i]))), []), Ref(st.new_cell(SStr(list(s.items[i + m_:]))), [])]))
    if c in ('core::str::<impl str>::strip_prefix', 'core::str::<impl str>::strip_suffix') and isinstance(args[1], Int):
        s = to_sstr(ex, args[0])
        if not s.items:
            return none()
        at_end = c.endswith('suffix')
        ch = s.items[-1 if at_end else 0]
        if not isinstance(ch, Int):
            raise Unsupported('strip_prefix on an opaque segment')
        cond = z3.simplify(ch.t == args[1].t)
        t = B([(cond, 'y'), (z3.Not(cond), 'n')])
        if t == 'n':
            return none()
        return some(Ref(st.new_cell(SStr(s.items[:-1] if at_end else s.items[1:])), []))
    if c == 'core::str::<impl str>::strip_prefix':
        s = to_sstr(ex, args[0])
        pre = to_sstr(ex, args[1])
        n = len(pre.items)
        if len(s.items) < n:
            return none()
        cond = z3.simplify(z3.And(*[a.t == b.t for a, b in zip(s.items[:n], pre.items)])) if n else z3.BoolVal(True)
        t = B([(cond, 'y'), (z3.Not(cond), 'n')])
        if t == 'n':
            return none()
        return some(Ref(st.new_cell(SStr(s.items[n:])), []))
    if c in ('core::str::<impl str>::trim_matches', 'core::str::<impl str>::trim_start_matches', 'core::str::<impl str>::trim_end_matches',
             'core::str::<impl str>::trim_start', 'core::str::<impl str>::trim_end'):
        s = to_sstr(ex, D(args[0]) if isinstance(args[0], Ref) else args[0])
        kind = c.split('::')[-1]
        py = s.concrete()
        pat = args[1] if len(args) > 1 else None
        patc = None
        if isinstance(pat, Int) and z3.is_bv_value(z3.simplify(pat.t)):
            patc = chr(z3.simplify(pat.t).as_long())
        if py is not None and (pat is None or patc is not None):
            chars = patc if patc is not None else None
            if kind in ('trim_matches',):
                out = py.strip(chars)
            elif kind in ('trim_start_matches', 'trim_start'):
                out = py.lstrip(chars) if (chars or all(ord(ch) < 128 for ch in py)) else None
            else:
                out = py.rstrip(chars) if (chars or all(ord(ch) < 128 for ch in py)) else None
            if out is not None:
                return Ref(st.new_cell(sstr(out)), [])
        return Ref(st.new_cell(SStr([Opaque(kind, (SStr(s.items),) + ((pat,) if pat is not None else ()))])), [])
    if c in ('core::str::<impl str>::trim', 'str::<impl str>::to_lowercase', 'str::<impl str>::to_uppercase'):
        s = to_sstr(ex, args[0])
        kind = c.split('::')[-1]
        py = s.concrete()
        if py is not None and all(ord(ch) < 128 for ch in py):
            out = sstr({'trim': py.strip(' \t\n\r\x0b\x0c'), 'to_lowercase': py.lower(), 'to_uppercase': py.upper()}[kind])
        elif kind == 'trim' and s.is_plain() and len(s.items) <= 6:
            # exact: branch over (first, last+1) non-whitespace positions
            n_ = len(s.items)
            ws = [is_ws(x.t) for x in s.items]
            opts = [(z3.And(*ws) if ws else z3.BoolVal(True), (0, 0))]
            for i_ in range(n_):
                for j_ in range(i_ + 1, n_ + 1):
                    opts.append((z3.And(*(ws[:i_] + [z3.Not(ws[i_]), z3.Not(ws[j_ - 1])] + ws[j_:])), (i_, j_)))
            i_, j_ = B(opts)
            out = SStr(list(s.items[i_:j_]))
        else:
            out = SStr([Opaque(kind, (SStr(s.items),))])
        return Ref(st.new_cell(out), []) if kind == 'trim' else out
    if c == 'core::str::<impl str>::get' or re.fullmatch(r'<(std::string::String|str) as Index<(?:std::ops::)?Range\w*(?:<usize>)?>>::index', c) \
            or c == 'core::str::<impl str>::split_at':
        s = to_sstr(ex, args[0])
        rng = args[1]
        if not s.is_plain():
            raise Unsupported('slicing a string with an opaque segment')
        pref = [bv(0, 64)]
        for ch in s.items:
            pref.append(z3.simplify(pref[-1] + utf8_width(z3.ZeroExt(32, ch.t))))
        if isinstance(rng, Int):
            start, end = Int(bv(0, 64), False), rng
        elif rng.ty == 'Range':
            start, end = rng.fields[0], rng.fields[1]
        elif rng.ty == 'RangeTo':
            start, end = Int(bv(0, 64), False), rng.fields[0]
        elif rng.ty == 'RangeFrom':
            start, end = rng.fields[0], Int(pref[-1], False)
        elif rng.ty == 'RangeInclusive':
            start, end = rng.fields[0], Int(rng.fields[1].t + 1, False)
        elif rng.ty == 'RangeToInclusive':
            start, end = Int(bv(0, 64), False), Int(rng.fields[0].t + 1, False)
        elif rng.ty == 'RangeFull':
            start, end = Int(bv(0, 64), False), Int(pref[-1], False)
        else:
            raise Unsupported('string index by %s' % rng.ty)
        opts = []
        n = len(s.items)
        for i in range(n + 1):
            for j in range(i, n + 1):
                opts.append((z3.And(start.t == pref[i], end.t == pref[j]), (i, j)))
        opts.append((z3.Not(z3.Or(*[o[0] for o in opts])), 'panic'))
        t = B(opts)
        if c.endswith('::split_at'):
            if t == 'panic':
                raise Panic('split_at: byte index is not a char boundary')
            return Adt('tuple', 0, [Ref(st.new_cell(SStr(s.items[:t[1]])), []), Ref(st.new_cell(SStr(s.items[t[1]:])), [])])
        if c.endswith('::get'):
            if t == 'panic':
                return none()
            return some(Ref(st.new_cell(SStr(s.items[t[0]:t[1]])), []))
        if t == 'panic':
            raise Panic('byte index is not a char boundary / out of range in str slice')
        return Ref(st.new_cell(SStr(s.items[t[0]:t[1]])), [])
    if c == 'core::str::<impl str>::parse' or c.startswith('core::str::<impl str>::parse::<'):
        raise Unsupported('parse without type')     # handled in model_raw
    if c.endswith(' as FromStr>::from_str'):
        s = to_sstr(ex, args[0])
        if 'Int' in c or 'i64' in c:
            return parse_int_model(ex, st, s, 10)
        if 'Float' in c or 'f64' in c:
            return parse_f64_model(ex, st, s)
        if 'bool' in c:
            return parse_bool_model(ex, st, s)
    mm = re.fullmatch(r'core::num::<impl (i64|u64|usize|i32|u32|u8|i8|u16|i16)>::from_str_radix', c)
    if mm:
        s = to_sstr(ex, args[0])
        ty = mm.group(1)
        return parse_int_model(ex, st, s, ex.concrete_int(args[1]), INT_BITS[ty], ty[0] == 'i')

    # ----- fmt
    if c == 'Arguments::from_str':
        s = to_sstr(ex, args[0])
        return FmtArgs([s.concrete()])
    if c == 'Arguments::new':
        tmpl = D(args[0])
        if not (isinstance(tmpl, Opaque) and tmpl.kind == 'bytes'):
            raise Unsupported('fmt template %r' % (tmpl,))
        arr = D(args[1])
        return FmtArgs(parse_fmt_template(tmpl.args[0], arr.items))
    if c == 'core::fmt::rt::Argument::new_display':
        return FmtArg('display', args[0])
    if c == 'core::fmt::rt::Argument::new_debug':
        return FmtArg('debug', args[0])
    if c == 'Formatter::write_fmt' or c == '<Formatter as Write>::write_fmt':
        fa = args[1]
        return ('BODY', synth_write_fmt(ex, len(fa.pieces)), [args[0], fa])
    if c == '__fmt_piece':
        f, fa, i = args
        piece = fa.pieces[ex.concrete_int(i)]
        if isinstance(piece, str):
            fmt_buf(ex, f).items.extend(sstr(piece).items)
            return ok(mkunit())
        arg = piece[1]
        if arg.kind == 'debug':
            tgt = D(arg.ref)
            fmt_buf(ex, f).items.append(Opaque('debug', ()))
            return ok(mkunit())
        return display_into(ex, st, arg.ref, f)
    if c == '__display_fmt':
        return display_into(ex, st, args[0], args[1])
    m = re.fullmatch(r'<(.*) as (?:std::fmt::)?Display>::fmt', c)
    if m:
        tgt = D(args[0])
        if isinstance(tgt, Adt) and tgt.ty not in ('Option', 'Result', 'tuple'):
            return NOTFOUND
        return display_into(ex, st, args[0], args[1])
    if c == '<std::string::String as Debug>::fmt' or re.fullmatch(r'<.* as (std::fmt::)?Debug>::fmt', c):
        tgt = D(args[0])
        if isinstance(tgt, SStr):
            # Debug of a string: quote + escaped body + quote; the body is exact when no character needs escaping
            py = tgt.concrete()
            buf = fmt_buf(ex, args[1])
            buf.items.append(mkchar('"'))
            if py is not None and all(32 <= ord(ch) < 127 and ch not in '"\\' for ch in py):
                buf.items.extend(tgt.items)
            else:
                buf.items.append(Opaque('debug_str_body', (SStr(tgt.items),)))
            buf.items.append(mkchar('"'))
            return ok(mkunit())
        if isinstance(tgt, Adt) and tgt.ty in ('Value', 'Operator', 'Token', 'PartialToken', 'Node', 'EvalexprError', 'Function',
                                               'HashMapContext', 'EmptyContext', 'EmptyContextWithBuiltinFunctions', 'ValueType',
                                               'DefaultNumericTypes'):
            return NOTFOUND
        fmt_buf(ex, args[1]).items.append(Opaque('debug', ()))
        return ok(mkunit())
    if c == 'Formatter::write_str':
        fmt_buf(ex, args[0]).items.extend(to_sstr(ex, args[1]).items)
        return ok(mkunit())
    if re.fullmatch(r'Formatter::debug_(struct|tuple)_field\d_finish', c) or c in ('Formatter::debug_struct_fields_finish', 'Formatter::debug_tuple_fields_finish'):
        fmt_buf(ex, args[0]).items.append(Opaque('debug', ()))
        return ok(mkunit())
    if c == '__new_formatter':
        return Adt('Formatter', 0, [Ref(st.new_cell(SStr([])), [])])
    if c == '__formatter_take':
        return SStr(fmt_buf(ex, args[0]).items)
    if c == 'format':
        return ('BODY', synth_static(ex, '__format'), args)

    # ----- integer kernels of std
    m = re.fullmatch(r'core::num::<impl i64>::checked_(add|sub|mul)', c)
    if m:
        x, y = args
        if m.group(1) == 'mul':
            # 64x64 signed multiplication: z3's dedicated no-overflow predicates (a 128-bit product does not get through
            # the SAT back end within minutes); agreement with i128 arithmetic on compiled std: kani harness checked_mul
            fits = z3.And(z3.BVMulNoOverflow(x.t, y.t, True), z3.BVMulNoUnderflow(x.t, y.t))
            res = x.t * y.t
        else:
            w = {'add': lambda a, b: a + b, 'sub': lambda a, b: a - b}[m.group(1)]
            wide = w(z3.SignExt(64, x.t), z3.SignExt(64, y.t))
            res = z3.Extract(63, 0, wide)
            fits = z3.SignExt(64, res) == wide
        t = B([(fits, 's'), (z3.Not(fits), 'n')])
        return some(Int(res, True)) if t == 's' else none()
    m = re.fullmatch(r'core::num::<impl i64>::checked_(div|rem)', c)
    if m:
        x, y = args
        bad = z3.Or(y.t == 0, z3.And(x.t == bv(-2 ** 63, 64), y.t == bv(-1, 64)))
        t = B([(z3.Not(bad), 's'), (bad, 'n')])
        if t == 'n':
            return none()
        return some(Int((x.t / y.t) if m.group(1) == 'div' else z3.SRem(x.t, y.t), True))
    if c == 'core::num::<impl i64>::checked_neg':
        x = args[0]
        bad = x.t == bv(-2 ** 63, 64)
        t = B([(z3.Not(bad), 's'), (bad, 'n')])
        return some(Int(-x.t, True)) if t == 's' else none()
    if c == 'core::num::<impl i64>::checked_abs':
        x = args[0]
        bad = x.t == bv(-2 ** 63, 64)
        t = B([(z3.Not(bad), 's'), (bad, 'n')])
        return some(Int(z3.If(x.t < 0, -x.t, x.t), True)) if t == 's' else none()
    if c == 'core::num::<impl i64>::abs':
        x = args[0]
        if ex.overflow_checks:
            bad = x.t == bv(-2 ** 63, 64)
            t = B([(z3.Not(bad), 's'), (bad, 'p')])
            if t == 'p':
                raise Panic('attempt to negate with overflow (i64::abs)')
        return Int(z3.If(x.t < 0, -x.t, x.t), True)
    if c in ('core::num::<impl i64>::wrapping_abs',):
        x = args[0]
        return Int(z3.If(x.t < 0, -x.t, x.t), True)
    m = re.fullmatch(r'<i64 as (Shl|Shr)(?:<i64>)?>::(shl|shr)', c)
    if m:
        x, y = args
        if ex.overflow_checks:
            bad = z3.Or(y.t < 0, y.t >= 64)
            t = B([(z3.Not(bad), 's'), (bad, 'p')])
            if t == 'p':
                raise Panic('attempt to shift %s with overflow' % ('left' if m.group(2) == 'shl' else 'right'))
        sh = y.t & 63
        return Int((x.t << sh) if m.group(2) == 'shl' else (x.t >> sh), True)
    m = re.fullmatch(r'core::num::<impl i64>::wrapping_(shl|shr)', c)
    if m:
        x, y = args
        sh = z3.ZeroExt(32, y.t) & 63
        return Int((x.t << sh) if m.group(1) == 'shl' else (x.t >> sh), True)
    m = re.fullmatch(r'core::num::<impl i64>::checked_(shl|shr)', c)
    if m:
        x, y = args
        okc = z3.ULT(y.t, bv(64, 32))
        t = B([(okc, 's'), (z3.Not(okc), 'n')])
        if t == 'n':
            return none()
        sh = z3.ZeroExt(32, y.t)
        return some(Int((x.t << sh) if m.group(1) == 'shl' else (x.t >> sh), True))
    mm = re.fullmatch(r'core::num::<impl (i64|u64|usize|i32|u32|u8|i128)>::(\w+)', c)
    if mm and isinstance(args[0], Int):
        ty, f = mm.group(1), mm.group(2)
        x = args[0]
        s = ty[0] == 'i'
        n = x.t.size()
        y = args[1] if len(args) > 1 and isinstance(args[1], Int) else None
        ext = (lambda t: z3.SignExt(n, t)) if s else (lambda t: z3.ZeroExt(n, t))
        lo, hi = (-(1 << (n - 1)), (1 << (n - 1)) - 1) if s else (0, (1 << n) - 1)
        arith = {'add': lambda a, b: a + b, 'sub': lambda a, b: a - b, 'mul': lambda a, b: a * b}
        for pre in ('wrapping_', 'saturating_', 'overflowing_', 'checked_'):
            op = f[len(pre):] if f.startswith(pre) else None
            if op in arith and y is not None and y.t.size() == n and not (ty == 'i64' and pre == 'checked_'):
                if op == 'mul' and n >= 64:
                    fits = z3.And(z3.BVMulNoOverflow(x.t, y.t, s), z3.BVMulNoUnderflow(x.t, y.t)) if s else z3.BVMulNoOverflow(x.t, y.t, False)
                    res_ = x.t * y.t
                    too_big = (x.t < 0) == (y.t < 0) if s else z3.BoolVal(True)
                else:
                    wide = arith[op](ext(x.t), ext(y.t))
                    res_ = z3.Extract(n - 1, 0, wide)
                    fits = ext(res_) == wide
                    too_big = (wide > hi) if s else (z3.UGT(wide, hi) if op != 'sub' else z3.BoolVal(False))
                if pre == 'wrapping_':
                    return Int(res_, s)
                if pre == 'overflowing_':
                    return Adt('tuple', 0, [Int(res_, s), z3.Not(fits)])
                if pre == 'saturating_':
                    return Int(z3.If(fits, res_, z3.If(too_big, bv(hi, n), bv(lo, n))), s)
                t = B([(fits, 's'), (z3.Not(fits), 'n')])
                return some(Int(res_, s)) if t == 's' else none()
        if f == 'wrapping_neg':
            return Int(-x.t, s)
        if f == 'unsigned_abs':
            return Int(z3.If(x.t < 0, -x.t, x.t), False)
        if f == 'signum':
            return Int(z3.If(x.t > 0, bv(1, n), z3.If(x.t == 0, bv(0, n), bv(-1, n))), True)
        if f in ('is_negative', 'is_positive'):
            return (x.t < 0) if f == 'is_negative' else (x.t > 0)
        if f in ('min', 'max') and y is not None:
            lt = (x.t < y.t) if s else z3.ULT(x.t, y.t)
            return Int(z3.If(lt, x.t, y.t) if f == 'min' else z3.If(lt, y.t, x.t), s)
        if f in ('rem_euclid', 'div_euclid', 'wrapping_rem', 'wrapping_div') and y is not None and s:
            bad = z3.Or(y.t == 0, z3.And(x.t == bv(lo, n), y.t == bv(-1, n))) if f.endswith('euclid') else (y.t == 0)
            t = B([(z3.Not(bad), 'ok'), (bad, 'p')])
            if t == 'p':
                raise Panic('attempt to divide / take the remainder with overflow or by zero')
            q, r_ = x.t / y.t, z3.SRem(x.t, y.t)
            if f == 'rem_euclid':
                return Int(z3.If(r_ < 0, z3.If(y.t < 0, r_ - y.t, r_ + y.t), r_), True)
            if f == 'div_euclid':
                return Int(z3.If(r_ < 0, z3.If(y.t > 0, q - 1, q + 1), q), True)
            return Int(q if f == 'wrapping_div' else r_, True)
        if f in ('count_ones', 'leading_zeros', 'trailing_zeros'):
            bits_ = [z3.ZeroExt(31, z3.Extract(i, i, x.t)) for i in range(n)]
            if f == 'count_ones':
                tot = bits_[0]
                for b_ in bits_[1:]:
                    tot = tot + b_
                return Int(tot, False)
            order = list(range(n - 1, -1, -1)) if f == 'leading_zeros' else list(range(n))
            r_ = bv(n, 32)
            for k_, i in reversed(list(enumerate(order))):
                r_ = z3.If(z3.Extract(i, i, x.t) == 1, bv(k_, 32), r_)
            return Int(r_, False)
        if f == 'pow' and y is not None:
            e_ = z3.simplify(y.t)
            if z3.is_bv_value(e_) and e_.as_long() <= 8:
                acc = bv(1, n)
                okc = z3.BoolVal(True)
                for _ in range(e_.as_long()):
                    if ex.overflow_checks:
                        okc = z3.And(okc, z3.BVMulNoOverflow(acc, x.t, s), z3.BVMulNoUnderflow(acc, x.t) if s else z3.BoolVal(True))
                    acc = acc * x.t
                if ex.overflow_checks:
                    t = B([(okc, 'ok'), (z3.Not(okc), 'p')])
                    if t == 'p':
                        raise Panic('attempt to multiply with overflow (pow)')
                return Int(acc, s)
    if c in ('std::cmp::min', 'std::cmp::max', 'core::cmp::min', 'core::cmp::max') and isinstance(args[0], Int):
        x, y = args
        lt = (y.t < x.t) if x.signed else z3.ULT(y.t, x.t)
        if c.endswith('min'):
            return Int(z3.If(lt, y.t, x.t), x.signed)
        gt = (x.t > y.t) if x.signed else z3.UGT(x.t, y.t)
        return Int(z3.If(gt, x.t, y.t), x.signed)
    mm = re.fullmatch(r'<(.*) as (?:Partial)?Ord>::(cmp|partial_cmp)', c)
    if mm:
        x, y = D(args[0]), D(args[1])
        if isinstance(x, Int):
            lt = (x.t < y.t) if x.signed else z3.ULT(x.t, y.t)
            o_ = Adt('Ordering', z3.If(lt, bv(-1, 64), z3.If(x.t == y.t, bv(0, 64), bv(1, 64))), [])
            return o_ if mm.group(2) == 'cmp' else some(o_)
        if isinstance(x, Fl) and mm.group(2) == 'partial_cmp':
            nan = z3.Or(z3.fpIsNaN(x.t), z3.fpIsNaN(y.t))
            t = B([(nan, 'n'), (z3.Not(nan), 's')])
            if t == 'n':
                return none()
            return some(Adt('Ordering', z3.If(z3.fpLT(x.t, y.t), bv(-1, 64), z3.If(z3.fpEQ(x.t, y.t), bv(0, 64), bv(1, 64))), []))
        if isinstance(x, SStr) or isinstance(y, SStr):
            # lexicographic by bytes = by scalar values (UTF-8 preserves code point order): reuse the string `<` model
            xs, ys = to_sstr(ex, x), to_sstr(ex, y)
            lt = str_lt(xs, ys, False)
            eq = str_eq(xs, ys)
            o_ = Adt('Ordering', z3.If(lt, bv(-1, 64), z3.If(eq, bv(0, 64), bv(1, 64))), [])
            return o_ if mm.group(2) == 'cmp' else some(o_)
        if z3.is_expr(x) and z3.is_bool(x):
            o_ = Adt('Ordering', z3.If(z3.And(z3.Not(x), y), bv(-1, 64), z3.If(x == y, bv(0, 64), bv(1, 64))), [])
            return o_ if mm.group(2) == 'cmp' else some(o_)
    if c.startswith(('std::cmp::Ordering::', 'core::cmp::Ordering::', 'Ordering::')) and args and isinstance(args[0], Adt) and args[0].ty == 'Ordering':
        v = args[0].variant
        vt = v if not isinstance(v, int) else bv(v, 64)
        meth = c.split('::')[-1]
        tests = {'is_lt': vt == bv(-1, 64), 'is_le': vt != bv(1, 64), 'is_gt': vt == bv(1, 64), 'is_ge': vt != bv(-1, 64), 'is_eq': vt == bv(0, 64), 'is_ne': vt != bv(0, 64)}
        if meth in tests:
            return z3.simplify(tests[meth])
        if meth == 'reverse':
            return Adt('Ordering', z3.simplify(-vt), [])
        if meth == 'then':
            o2 = args[1].variant
            o2t = o2 if not isinstance(o2, int) else bv(o2, 64)
            return Adt('Ordering', z3.simplify(z3.If(vt == bv(0, 64), o2t, vt)), [])
    if re.fullmatch(r'<(std::cmp::|core::cmp::)?Ordering as PartialEq>::(eq|ne)', c):
        a, b2 = D(args[0]), D(args[1])
        at = a.variant if not isinstance(a.variant, int) else bv(a.variant, 64)
        bt = b2.variant if not isinstance(b2.variant, int) else bv(b2.variant, 64)
        e = at == bt
        return z3.simplify(e if c.endswith('eq') else z3.Not(e))
    m128 = re.fullmatch(r'<(i64|i32|u64|usize|u32) as TryFrom<(i128|u128|i64|u64|usize|i32|u32|isize)>>::try_from', c)
    if m128 and isinstance(args[0], Int):
        dst, src = m128.group(1), m128.group(2)
        x = args[0]
        db = INT_BITS[dst]
        sb = x.t.size()
        dsig, ssig = dst[0] == 'i', src[0] == 'i'
        lo = -(1 << (db - 1)) if dsig else 0
        hi = (1 << (db - 1)) - 1 if dsig else (1 << db) - 1
        w = max(sb, db) + 1
        wide = z3.SignExt(w - sb, x.t) if ssig else z3.ZeroExt(w - sb, x.t)
        fits = z3.And(wide >= z3.BitVecVal(lo, w), wide <= z3.BitVecVal(hi, w))
        xt = x.t
        if sb == 128 and db == 64 and dsig and ssig and z3.is_app(xt) and xt.decl().kind() == z3.Z3_OP_BMUL and xt.num_args() == 2 and \
                all(ch.decl().kind() == z3.Z3_OP_SIGN_EXT and ch.arg(0).size() == 64 for ch in xt.children()):
            # (a as i128) * (b as i128) narrowed back to i64: the 128-bit product does not get through the solver; say the same thing with the
            # signed-multiplication overflow predicates (their agreement with i128 arithmetic is what the Kani harness checked_mul_matches_i128 proves)
            a_, b_ = xt.arg(0).arg(0), xt.arg(1).arg(0)
            fits = z3.And(z3.BVMulNoOverflow(a_, b_, True), z3.BVMulNoUnderflow(a_, b_))
            wide = z3.SignExt(w - 64, a_ * b_)
        t = B([(fits, 'ok'), (z3.Not(fits), 'err')])
        if t == 'ok':
            return ok(Int(z3.Extract(db - 1, 0, wide), dsig))
        return err(Adt('TryFromIntError', 0, [mkunit()]))
    m = re.fullmatch(r'<i64 as (BitAnd|BitOr|BitXor)(?:<i64>)?>::\w+', c)
    if m:
        x, y = args
        return Int({'BitAnd': x.t & y.t, 'BitOr': x.t | y.t, 'BitXor': x.t ^ y.t}[m.group(1)], True)
    if c == '<i64 as std::ops::Not>::not':
        return Int(~args[0].t, True)
    if re.fullmatch(r'<(u32|usize|u64) as TryFrom<i64>>::try_from', c) or re.fullmatch(r'<i64 as TryInto<(u32|usize|u64)>>::try_into', c):
        x = args[0]
        tgt = re.search(r'(u32|usize|u64)', c).group(1)
        bits = INT_BITS[tgt]
        fits = z3.And(x.t >= 0, x.t < (1 << bits) if bits < 64 else x.t >= 0)
        t = B([(fits, 'ok'), (z3.Not(fits), 'err')])
        if t == 'err':
            return err(mkunit())
        return ok(Int(z3.Extract(bits - 1, 0, x.t), False))

    # ----- f64 kernels of std
    m = re.fullmatch(r'(?:core::)?f64::<impl f64>::(\w+)', c)
    if m:
        f = m.group(1)
        a = args[0].t
        if f in LIBM1:
            x = fp_concrete(a)
            if x is not None:
                r = host_libm(f, x)
                if r is not None:
                    return Fl(fp_from_py(r))
            return Fl(ex.uf('libm_' + f, F64, F64)(a))
        if f in LIBM2:
            x, y = fp_concrete(a), fp_concrete(args[1].t)
            if x is not None and y is not None:
                r = host_libm(f, x, y)
                if r is not None:
                    return Fl(fp_from_py(r))
            return Fl(ex.uf('libm_' + f, F64, F64, F64)(a, args[1].t))
        if f == 'abs':
            return Fl(z3.fpAbs(a))
        if f == 'floor':
            return Fl(z3.fpRoundToIntegral(z3.RTN(), a))
        if f == 'ceil':
            return Fl(z3.fpRoundToIntegral(z3.RTP(), a))
        if f == 'round':
            return Fl(z3.fpRoundToIntegral(z3.RNA(), a))
        if f == 'trunc':
            return Fl(z3.fpRoundToIntegral(z3.RTZ(), a))
        if f == 'fract':
            return Fl(z3.fpSub(RNE, a, z3.fpRoundToIntegral(z3.RTZ(), a)))
        if f == 'to_bits':
            # one NaN in the theory: the bit pattern of a NaN is unconstrained
            return Int(z3.fpToIEEEBV(a), False)
        if f == 'is_sign_negative':
            return z3.Or(z3.fpIsNegative(a), z3.And(z3.fpIsNaN(a), z3.Bool(ex.fresh_name('nan_sign'))))
        if f == 'is_sign_positive':
            return z3.Or(z3.fpIsPositive(a), z3.And(z3.fpIsNaN(a), z3.Bool(ex.fresh_name('nan_sign'))))
        if f == 'signum':
            return Fl(z3.If(z3.fpIsNaN(a), a, z3.If(z3.fpIsNegative(a), z3.FPVal(-1.0, F64), z3.FPVal(1.0, F64))))
        if f == 'copysign':
            b = args[1].t
            return Fl(z3.If(z3.fpIsNegative(b), z3.fpNeg(z3.fpAbs(a)), z3.fpAbs(a)))
        if f == 'is_subnormal':
            return z3.fpIsSubnormal(a)
        if f == 'recip':
            return Fl(z3.fpDiv(RNE, z3.FPVal(1.0, F64), a))
        if f in ('powi',):
            return Fl(ex.uf('libm_powi', F64, z3.BitVecSort(32), F64)(a, args[1].t))
        if f == 'mul_add':
            return Fl(z3.fpFMA(RNE, a, args[1].t, args[2].t))
        if f == 'clamp':
            lo_, hi_ = args[1].t, args[2].t
            return Fl(z3.If(z3.fpLT(a, lo_), lo_, z3.If(z3.fpGT(a, hi_), hi_, a)))
        if f in ('total_cmp',):
            raise Unsupported('f64::total_cmp')
        if f == 'is_nan':
            return z3.fpIsNaN(a)
        if f == 'is_infinite':
            return z3.fpIsInf(a)
        if f == 'is_finite':
            return z3.Not(z3.Or(z3.fpIsNaN(a), z3.fpIsInf(a)))
        if f == 'is_normal':
            return z3.fpIsNormal(a)
        if f in ('min', 'max'):
            b = args[1].t
            pick = z3.fpLT(a, b) if f == 'min' else z3.fpGT(a, b)
            other = z3.fpLT(b, a) if f == 'min' else z3.fpGT(b, a)
            tie = z3.Bool(ex.fresh_name('fminmax_tie'))
            return Fl(z3.If(z3.fpIsNaN(a), b, z3.If(z3.fpIsNaN(b), a, z3.If(pick, a, z3.If(other, b, z3.If(tie, a, b))))))
    if c in ('core::f64::<impl f64>::from_bits', 'f64::<impl f64>::from_bits'):
        return Fl(z3.fpBVToFP(args[0].t, F64))
    m = re.fullmatch(r'<f64 as (?:std::ops::)?(Add|Sub|Mul|Div|Rem|Neg)(?:<f64>)?>::\w+', c)
    if m:
        if m.group(1) == 'Neg':
            return Fl(z3.fpNeg(args[0].t))
        return ex.binop(m.group(1), args[0], args[1])
    m = re.fullmatch(r'<<.*>::Float as (?:std::ops::)?(Add|Sub|Mul|Div|Rem|Neg)>::\w+', c)
    if m:
        if m.group(1) == 'Neg':
            return Fl(z3.fpNeg(args[0].t))
        return ex.binop(m.group(1), args[0], args[1])
    return NOTFOUND


def from_arg_matches(body, src):
    """does the From::from body take an argument of (textual) type src?"""
    want = re.sub(r'\s+', '', src)
    have = re.sub(r'\s+', '', body.locals.get(body.args[0], '')) if body.args else ''
    def norm(t):
        t = re.sub(r"'[a-z_]+", '', t)
        t = t.replace('std::string::', '').replace('value::', '').replace('numeric_types::', '')
        t = re.sub(r'<NumericTypes>', '', t)
        return t
    return norm(want) == norm(have)


def call_value(ex, st, f, rest):
    if isinstance(f, (Ref, BoxV)):
        f = ex.deref_all(f)
    if isinstance(f, PyFn):
        return f.fn(ex, st, list(rest))
    if isinstance(f, Closure):
        body = ex.p.by_name[f.name][0]
        by_ref = body.locals.get(body.args[0], '').startswith('&')
        return ('BODY', body, [Ref(st.new_cell(f), []) if by_ref else f] + list(rest))
    if isinstance(f, FnItem):
        name = f.name
        from frontend import strip_generics
        sn = strip_generics(name)
        segs = sn.split('::')
        if len(segs) >= 2 and segs[-2] in ex.p.meta.enums and any(vn == segs[-1] for vn, _ in ex.p.meta.enums[segs[-2]]):
            return Adt(segs[-2], ex.p.meta.variant_index(segs[-2], segs[-1]), list(rest))
        if segs[-1] in ('Some',):
            return some(rest[0])
        return Tail(sn, list(rest))
    if callable(f):
        return f(ex, st, rest)
    raise Unsupported('call of %r' % (f,))


def iter_next(ex, st, it, handle, c):
    """next() on iterator object `it`; `handle` is a reference whose target is `it` (needed for crate iterators)"""
    D = ex.deref_all
    if isinstance(it, PeekV):
        it = it.it
    if isinstance(it, CharsV):
        if it.pos >= it.end:
            return none()
        ch = D(it.ref).items[it.pos]
        it.pos += 1
        return some(ch)
    if isinstance(it, IterV):
        if it.pos >= it.end:
            return none()
        r = Ref(it.ref.cell, list(it.ref.path) + [('index', it.pos)])
        it.pos += 1
        return some(r)
    if isinstance(it, OwnIter):
        if it.pos >= len(it.items):
            return none()
        v = it.items[it.pos]
        it.pos += 1
        return some(v)
    if isinstance(it, AdaptV):
        end = ex.ref_chain_end(handle)
        if it.kind == 'zip':
            return ('BODY', synth_static(ex, '__zip_next'), [end])
        if it.kind == 'from_fn':
            return call_value(ex, st, Ref(end.cell, list(end.path) + [('attr', 'fn')], mut=True), [])
        if it.kind == 'filter_map':
            return ('BODY', synth_static(ex, '__filter_map_next'), [end])
        if it.kind == 'map':
            return ('BODY', synth_static(ex, '__map_next'), [end])
        if it.kind == 'filter':
            return ('BODY', synth_static(ex, '__filter_next'), [end])
        if it.kind == 'flat_map':
            return ('BODY', synth_static(ex, '__flat_map_next'), [end])
        if it.kind == 'chain':
            return ('BODY', synth_static(ex, '__chain_next'), [end])
        if it.kind == 'cloned':
            r = iter_next(ex, st, it.it, Ref(end.cell, list(end.path) + [('attr', 'it')]), c)
            if isinstance(r, Adt) and r.ty == 'Option':
                if r.variant == 0:
                    return r
                return some(copy_value(D(r.fields[0])))
            raise Unsupported('cloned over a non-native iterator')
    if isinstance(it, Adt):
        body = ex.p.find_method('Iterator', it.ty, 'next')
        if body is not None:
            return ('BODY', body, [ex.ref_chain_end(handle)])
    raise Unsupported('next() on %r (%s)' % (it, c))


def map_lookup(ex, st, m, key):
    """index of `key` in the association list, forking on symbolic key equality; None if absent"""
    opts = []
    prior = []
    for i, k in enumerate(m.keys):
        e = str_eq(k, key)
        cond = z3.And(e, *[z3.Not(p) for p in prior]) if prior else e
        opts.append((cond, i))
        prior.append(e)
    opts.append((z3.And(*[z3.Not(p) for p in prior]) if prior else z3.BoolVal(True), None))
    return ex.branch(st, opts)


def fmt_buf(ex, f):
    fm = ex.deref_all(f)
    if not (isinstance(fm, Adt) and fm.ty == 'Formatter'):
        raise Unsupported('not a Formatter: %r' % (fm,))
    return ex.deref_all(fm.fields[0])


def display_into(ex, st, ref, f):
    tgt = ex.deref_all(ref)
    buf = None
    if isinstance(tgt, SStr):
        fmt_buf(ex, f).items.extend(tgt.items)
        return ok(mkunit())
    if isinstance(tgt, Int):
        if tgt.t.size() == 32 and not tgt.signed:       # char (the crate formats no u32)
            fmt_buf(ex, f).items.append(tgt)
        else:
            fmt_buf(ex, f).items.extend(fmt_int_items(tgt))
        return ok(mkunit())
    if isinstance(tgt, Fl):
        fmt_buf(ex, f).items.extend(fmt_f64_items(tgt))
        return ok(mkunit())
    if z3.is_expr(tgt) and z3.is_bool(tgt):
        t = ex.branch(st, [(tgt, 't'), (z3.Not(tgt), 'f')])
        fmt_buf(ex, f).items.extend(sstr('true' if t == 't' else 'false').items)
        return ok(mkunit())
    if isinstance(tgt, Adt):
        body = ex.p.find_method('Display', tgt.ty, 'fmt')
        if body is not None:
            r = ref
            while isinstance(ex.deref1(r), (Ref, BoxV)):
                r = ex.deref1(r)
            return ('BODY', body, [r, f])
    raise Unsupported('Display of %r' % (tgt,))


def parse_fmt_template(tb, args):
    pieces = []
    i = 0
    nxt = 0
    while i < len(tb):
        b = tb[i]
        if b == 0:
            break
        if b < 0x80:
            pieces.append(tb[i + 1:i + 1 + b].decode('utf-8'))
            i += 1 + b
        elif b == 0xC0:
            pieces.append(('arg', args[nxt]))
            nxt += 1
            i += 1
        else:
            raise Unsupported('fmt template byte 0x%02x' % b)
    return pieces


def parse_int_model(ex, st, s, radix, bits=64, signed=True):
    if not s.is_plain():
        raise Unsupported('integer parse of a string with an opaque segment')
    chars = [c.t for c in s.items]
    valid, fits, val = int_parse(chars, radix, bits, signed)
    okc = z3.simplify(z3.And(valid, fits))
    t = ex.branch(st, [(okc, 'ok'), (z3.Not(okc), 'err')])
    if t == 'err':
        return err(Opaque('ParseIntError', ()))
    return ok(Int(val, signed))


def parse_f64_value(ex, s):
    py = s.concrete()
    if py is not None:
        try:
            if re.fullmatch(r'[+-]?(inf|infinity|nan)', py, re.I) or re.fullmatch(r'[+-]?(\d+\.?\d*|\.\d+)([eE][+-]?\d+)?', py):
                return Fl(fp_from_py(float(py)))
        except ValueError:
            pass
    n = len(s.items)
    f = ex.uf('parse_f64_%d' % n, *([z3.BitVecSort(32)] * n + [F64]))
    return Fl(f(*[c.t for c in s.items]))


FLOAT_CHARS = set('0123456789+-.eEinfatyINFATY')


def parse_f64_model(ex, st, s):
    if not s.is_plain():
        # a string containing a character that occurs in no float literal is rejected whatever the opaque segments render to
        for c in s.items:
            if isinstance(c, Int):
                t = z3.simplify(c.t)
                if z3.is_bv_value(t) and chr(t.as_long()) not in FLOAT_CHARS:
                    return err(Opaque('ParseFloatError', ()))
        raise Unsupported('float parse of a string with an opaque segment')
    acc = f64_accepts([c.t for c in s.items])
    t = ex.branch(st, [(acc, 'ok'), (z3.Not(acc), 'err')])
    if t == 'err':
        return err(Opaque('ParseFloatError', ()))
    return ok(parse_f64_value(ex, s))


def parse_bool_model(ex, st, s):
    if not s.is_plain():
        raise Unsupported('bool parse of a string with an opaque segment')
    is_t = str_eq(s, sstr('true'))
    is_f = str_eq(s, sstr('false'))
    t = ex.branch(st, [(is_t, 't'), (is_f, 'f'), (z3.Not(z3.Or(is_t, is_f)), 'err')])
    if t == 'err':
        return err(Opaque('ParseBoolError', ()))
    return ok(z3.BoolVal(t == 't'))


def model_raw(ex, st, raw, args):
    """models that need the turbofish of the un-stripped callee"""
    m = re.match(r'core::str::<impl str>::parse::<(.*)>$', raw)
    if m:
        ty = m.group(1)
        s = to_sstr(ex, args[0])
        if ty.endswith('::Float') or ty == 'f64':
            return parse_f64_model(ex, st, s)
        if ty.endswith('::Int') or ty == 'i64':
            return parse_int_model(ex, st, s, 10)
        if ty == 'bool':
            return parse_bool_model(ex, st, s)
        if ty in INT_BITS and ty != 'char':
            return parse_int_model(ex, st, s, 10, INT_BITS[ty], ty[0] == 'i')
        raise Unsupported('parse::<%s>' % ty)
    return NOTFOUND
