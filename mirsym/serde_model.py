"""A model of serde's data model for C16: a Serializer that records what the (derive-generated or hand-written) Serialize impls of the crate
emit, and Deserializers that replay such a record into the crate's Deserialize impls / Visitors.  The crate side (derive output included) is
executed from MIR; only the *format* side of the protocol is modelled: a format that represents the serde data model faithfully, either
self-describing (structs as maps with field names, enum variants by name: JSON/RON-like, `mode='map'`) or positional (structs as sequences,
variants by index: bincode-like, `mode='seq'`).

Nested callbacks into crate MIR are run synchronously (`subcall`); they must be deterministic (one path), which holds because every unit fixes
the variant of each value and leaves only payloads (ints, floats, bools, chars) symbolic."""
import re
import z3
from values import *
from engine import Exec, State, Frame

SER = 'ModelSerializer'


def C(kind, *fields):
    return Adt('C:' + kind, 0, list(fields))


def kind_of(c):
    return c.ty[2:] if isinstance(c, Adt) and c.ty.startswith('C:') else None


def serde_error(what, *payload):
    return Adt('SerdeError', 0, [sstr(what)] + list(payload))


class World(object):
    def __init__(self, ctx, mode='map'):
        self.C = ctx
        self.p = ctx.p
        self.mode = mode
        self.trace = []

    # ------------------------------------------------------------ body lookup (derive output has several impls per source span)
    def _first_arg_ty(self, b):
        return b.locals.get(b.args[0], '') if b.args else ''

    def find(self, method, pred):
        out = [b for b in self.p.bodies if b.name.endswith('::' + method) and pred(b)]
        if len(out) != 1:
            raise Unsupported('serde model: %d bodies for %s' % (len(out), method))
        return out[0]

    def serialize_body(self, ty):
        return self.find('serialize', lambda b: re.match(r'&%s(<|$)' % re.escape(ty), self._first_arg_ty(b).replace('context::', '').replace('value::', '')) is not None)

    def deserialize_body(self, ty):
        return self.find('deserialize', lambda b: b.name.count('<impl at') == 1 and re.search(r'-> Result<(?:\w+::)*%s<' % re.escape(ty), b.header) is not None)

    def field_deserialize_body(self, owner):
        # owner None: rustc prints a type name that is unique in the crate without its path
        return self.find('deserialize', lambda b: b.name.count('<impl at') == 2 and '__Field' in b.header and
                         (owner is None or re.search(r'for (?:\w+::)*%s<' % re.escape(owner), b.header) is not None))

    def visitor_body(self, vtext, method):
        m = re.search(r'for (?:\w+::)*(\w+)<.*?>>::deserialize::(__FieldVisitor|__Visitor)', vtext)
        if m:
            owner, vk = m.group(1), m.group(2)
            return self.find(method, lambda b: re.search(r'for (?:\w+::)*%s<' % owner, self._first_arg_ty(b)) is not None and
                             re.search(r'::%s(<|$)' % vk, self._first_arg_ty(b)) is not None)
        m = re.fullmatch(r"(__FieldVisitor|__Visitor)(<.*>)?", vtext.strip())
        if m:
            vk = m.group(1)
            return self.find(method, lambda b: re.search(r'(^|::|&)%s(<|$)' % vk, self._first_arg_ty(b)) is not None)
        m = re.match(r'(?:\w+::)*(\w+Visitor)<', vtext)
        if m:
            return self.find(method, lambda b: re.match(r'(?:\w+::)*%s<' % m.group(1), self._first_arg_ty(b)) is not None)
        raise Unsupported('serde model: visitor type %s' % vtext[:80])

    # ------------------------------------------------------------ synchronous nested execution
    def subcall(self, ex, st, body, args):
        return ex.subcall(st, body, args)

    # ------------------------------------------------------------ Serialize side
    def ser_value(self, ex, st, vref):
        """-> Result<content, error> for the value behind vref (dispatch on the run-time value, as monomorphisation would on the type)"""
        end = ex.ref_chain_end(vref) if isinstance(vref, Ref) else None
        v = ex.deref_all(vref)
        if z3.is_expr(v) and z3.is_bool(v):
            return ok(C('bool', v))
        if isinstance(v, Int):
            return ok(C(('i' if v.signed else 'u') + str(v.t.size()), v))
        if isinstance(v, Fl):
            return ok(C('f64', v))
        if isinstance(v, SStr):
            return ok(C('str', SStr(list(v.items))))
        if isinstance(v, VecV):
            items = []
            for i in range(len(v.items)):
                r = self.ser_value(ex, st, Ref(end.cell, tuple(end.path) + (('index', i),)))
                if r.variant != 0:
                    return r
                items.append(r.fields[0])
            return ok(C('seq', VecV(items)))
        if isinstance(v, HashMapV):
            ents = []
            for i in range(len(v.keys)):
                r = self.ser_value(ex, st, Ref(end.cell, tuple(end.path) + (('mapval', i),)))
                if r.variant != 0:
                    return r
                ents.append(Adt('tuple', 0, [C('str', SStr(list(v.keys[i].items))), r.fields[0]]))
            return ok(C('map', VecV(ents)))
        if isinstance(v, Adt) and v.ty == '()':
            return ok(C('unit'))
        if isinstance(v, Adt) and v.ty == 'Option':
            if v.variant == 0:
                return ok(C('none'))
            r = self.ser_value(ex, st, Ref(end.cell, tuple(end.path) + (('downcast', 1), ('field', 0))))
            return r if r.variant != 0 else ok(C('some', r.fields[0]))
        if isinstance(v, Adt):
            body = self.serialize_body(v.ty)
            self.trace.append('serialize %s' % v.ty)
            return self.subcall(ex, st, body, [end, Adt(SER, 0, [])])
        raise Unsupported('serde model: cannot serialize %r' % (v,))

    # ------------------------------------------------------------ Deserialize side
    def de_value(self, ex, st, T, content):
        """-> Result<value of type T, error>"""
        T = T.strip()
        k = kind_of(content)
        bad = lambda: err(serde_error('invalid_type', sstr(T[:40]), sstr(str(k))))
        if T == 'bool':
            return ok(content.fields[0]) if k == 'bool' else bad()
        if T in ('i64', '<NumericTypes as numeric_types::EvalexprNumericTypes>::Int', '<NumericTypes as EvalexprNumericTypes>::Int'):
            return ok(content.fields[0]) if k == 'i64' else bad()
        if T in ('f64', '<NumericTypes as numeric_types::EvalexprNumericTypes>::Float', '<NumericTypes as EvalexprNumericTypes>::Float'):
            if k == 'f64':
                return ok(content.fields[0])
            if k in ('i64', 'i32', 'u64', 'u32'):
                # serde's f64 visitor accepts integers (`visit_i64` / `visit_u64` convert with `as f64`)
                t = content.fields[0].t
                return ok(Fl(z3.fpSignedToFP(z3.RNE(), t, F64) if k[0] == 'i' else z3.fpUnsignedToFP(z3.RNE(), t, F64)))
            return bad()
        if T in ('std::string::String', 'String'):
            return ok(SStr(list(content.fields[0].items))) if k == 'str' else bad()
        if T in ('IgnoredAny', 'context::_::_serde::de::IgnoredAny'):
            return ok(Adt('IgnoredAny', 0, []))
        m = re.fullmatch(r'Vec<(.*)>', T)
        if m:
            if k != 'seq':
                return bad()
            items = []
            for c in content.fields[0].items:
                r = self.de_value(ex, st, m.group(1), c)
                if r.variant != 0:
                    return r
                items.append(r.fields[0])
            return ok(VecV(items))
        m = re.fullmatch(r'HashMap<(?:std::string::)?String, (.*)>', T)
        if m:
            if k != 'map':
                return bad()
            keys, vals = [], []
            for ent in content.fields[0].items:
                kc, vc = ent.fields
                if kind_of(kc) != 'str':
                    return bad()
                r = self.de_value(ex, st, m.group(1), vc)
                if r.variant != 0:
                    return r
                key = SStr(list(kc.fields[0].items))
                # later duplicates overwrite (HashMap::insert)
                dup = [i for i, q in enumerate(keys) if q.concrete() is not None and q.concrete() == key.concrete()]
                if dup:
                    vals[dup[0]] = r.fields[0]
                else:
                    keys.append(key)
                    vals.append(r.fields[0])
            return ok(HashMapV(keys, vals))
        m = re.search(r'for (?:\w+::)*(\w+)<.*>>::deserialize::__Field$', T)
        if m or T == '__Field':
            body = self.field_deserialize_body(m.group(1) if m else None)
            return self.subcall(ex, st, body, [Adt('IdentDeserializer', 0, [content])])
        m = re.match(r'(?:\w+::)*(\w+)(<|$)', T)
        if m and any(b.name.endswith('::deserialize') and re.search(r'-> Result<(?:\w+::)*%s<' % m.group(1), b.header) for b in self.p.bodies):
            body = self.deserialize_body(m.group(1))
            self.trace.append('deserialize %s' % m.group(1))
            return self.subcall(ex, st, body, [Adt('ModelDeserializer', 0, [content])])
        raise Unsupported('serde model: cannot deserialize type %s' % T)

    # ------------------------------------------------------------ the protocol, as overrides
    def install(self, ex):
        W = self
        D = ex.deref_all

        def turbofish(st, method):
            raw = getattr(st, 'cur_raw', '') or ''
            i = raw.rfind('::' + method + '::<')
            if i < 0:
                raise Unsupported('serde model: no type argument on %s' % raw[:120])
            j = i + len(method) + 5
            depth = 1
            k = j
            while k < len(raw) and depth:
                if raw[k] == '<':
                    depth += 1
                elif raw[k] == '>' and raw[k - 1] != '-':
                    depth -= 1
                k += 1
            return raw[j:k - 1]

        def ser(ex_, st, c, args):
            m = c.split('::')[-1]
            W.trace.append(m)
            if m == 'serialize_struct':
                return ok(Adt('SerStruct', 0, [SStr(list(D(args[1]).items)), VecV([])]))
            if m == 'serialize_field':
                state = D(args[0])
                r = W.ser_value(ex_, st, args[2])
                if r.variant != 0:
                    return r
                state.fields[1].items.append(Adt('tuple', 0, [SStr(list(D(args[1]).items)), r.fields[0]]))
                return ok(mkunit())
            if m == 'skip_field':
                return ok(mkunit())
            if m == 'end':
                s = D(args[0]) if isinstance(args[0], Ref) else args[0]
                return ok(C('struct', s.fields[0], s.fields[1]))
            if m == 'serialize_newtype_variant':
                r = W.ser_value(ex_, st, args[4])
                if r.variant != 0:
                    return r
                return ok(C('newtype_variant', SStr(list(D(args[1]).items)), args[2], SStr(list(D(args[3]).items)), r.fields[0]))
            if m == 'serialize_unit_variant':
                return ok(C('unit_variant', SStr(list(D(args[1]).items)), args[2], SStr(list(D(args[3]).items))))
            if m == 'serialize_newtype_struct':
                r = W.ser_value(ex_, st, args[2])
                return r if r.variant != 0 else ok(C('newtype_struct', SStr(list(D(args[1]).items)), r.fields[0]))
            simple = {'serialize_bool': 'bool', 'serialize_i64': 'i64', 'serialize_u64': 'u64', 'serialize_f64': 'f64', 'serialize_u32': 'u32', 'serialize_i32': 'i32'}
            if m in simple:
                return ok(C(simple[m], args[1]))
            if m == 'serialize_str':
                return ok(C('str', SStr(list(D(args[1]).items))))
            if m == 'serialize_unit':
                return ok(C('unit'))
            if m == 'serialize_none':
                return ok(C('none'))
            if m == 'serialize_some':
                r = W.ser_value(ex_, st, args[1])
                return r if r.variant != 0 else ok(C('some', r.fields[0]))
            if m == 'collect_str':
                raise Unsupported('serde model: collect_str (Display-based serialization)')
            raise Unsupported('serde model: Serializer::%s' % m)

        def content_of(d):
            d = D(d) if isinstance(d, Ref) else d
            if not isinstance(d, Adt) or d.ty not in ('ModelDeserializer', 'IdentDeserializer'):
                raise Unsupported('serde model: not a model deserializer: %r' % (d,))
            return d

        def de(ex_, st, c, args):
            m = c.split('::')[-1]
            W.trace.append(m)
            d = content_of(args[0])
            content = d.fields[0]
            k = kind_of(content)
            visitor = args[-1]
            vtext = turbofish(st, m)
            if d.ty == 'IdentDeserializer':
                if m not in ('deserialize_identifier', 'deserialize_str', 'deserialize_string', 'deserialize_u32', 'deserialize_u64', 'deserialize_any'):
                    raise Unsupported('serde model: identifier deserializer asked %s' % m)
                if k == 'str':
                    return ('BODY', W.visitor_body(vtext, 'visit_str'), [visitor, Ref(st.new_cell(SStr(list(content.fields[0].items))), [])])
                if k in ('u32', 'u64'):
                    t = content.fields[0].t
                    return ('BODY', W.visitor_body(vtext, 'visit_u64'), [visitor, Int(z3.ZeroExt(64 - t.size(), t) if t.size() < 64 else t, False)])
                raise Unsupported('serde model: identifier content %s' % k)
            if m == 'deserialize_struct':
                if k != 'struct':
                    return err(serde_error('invalid_type', sstr('struct'), sstr(str(k))))
                if W.mode == 'map':
                    acc = Adt('MapAcc', 0, [VecV(list(content.fields[1].items)), usize(0)])
                    return ('BODY', W.visitor_body(vtext, 'visit_map'), [visitor, acc])
                acc = Adt('SeqAcc', 0, [VecV([e.fields[1] for e in content.fields[1].items]), usize(0)])
                return ('BODY', W.visitor_body(vtext, 'visit_seq'), [visitor, acc])
            if m == 'deserialize_enum':
                if k not in ('newtype_variant', 'unit_variant'):
                    return err(serde_error('invalid_type', sstr('enum'), sstr(str(k))))
                return ('BODY', W.visitor_body(vtext, 'visit_enum'), [visitor, Adt('EnumAcc', 0, [content])])
            if m in ('deserialize_str', 'deserialize_string'):
                if k != 'str':
                    return err(serde_error('invalid_type', sstr('string'), sstr(str(k))))
                return ('BODY', W.visitor_body(vtext, 'visit_str'), [visitor, Ref(st.new_cell(SStr(list(content.fields[0].items))), [])])
            raise Unsupported('serde model: Deserializer::%s' % m)

        def acc(ex_, st, c, args):
            m = c.split('::')[-1]
            W.trace.append(m)
            a = D(args[0]) if isinstance(args[0], Ref) else args[0]
            if m in ('next_key', 'next_element'):
                T = turbofish(st, m)
                items = a.fields[0].items
                pos = a.fields[1].t.as_long()
                if pos >= len(items):
                    return ok(none())
                it = items[pos]
                if m == 'next_key':
                    content = C('str', SStr(list(it.fields[0].items)))
                    if W.mode == 'seq':
                        content = C('u64', Int(z3.BitVecVal(pos, 64), False))
                else:
                    content = it
                    a.fields[1] = usize(pos + 1)
                r = W.de_value(ex_, st, T, content)
                return r if r.variant != 0 else ok(some(r.fields[0]))
            if m == 'next_value':
                T = turbofish(st, m)
                items = a.fields[0].items
                pos = a.fields[1].t.as_long()
                a.fields[1] = usize(pos + 1)
                return W.de_value(ex_, st, T, items[pos].fields[1])
            if m == 'variant':
                T = turbofish(st, m)
                content = a.fields[0]
                ident = C('str', content.fields[2]) if W.mode == 'map' else C('u32', content.fields[1])
                r = W.de_value(ex_, st, T, ident)
                if r.variant != 0:
                    return r
                return ok(Adt('tuple', 0, [r.fields[0], Adt('VariantAcc', 0, [content])]))
            if m == 'newtype_variant':
                T = turbofish(st, m)
                content = a.fields[0]
                if kind_of(content) != 'newtype_variant':
                    return err(serde_error('invalid_type', sstr('newtype variant'), sstr(str(kind_of(content)))))
                return W.de_value(ex_, st, T, content.fields[3])
            if m == 'unit_variant':
                content = a.fields[0]
                if kind_of(content) != 'unit_variant':
                    return err(serde_error('invalid_type', sstr('unit variant'), sstr(str(kind_of(content)))))
                return ok(mkunit())
            if m == 'size_hint':
                return none()
            raise Unsupported('serde model: access method %s' % m)

        def errs(ex_, st, c, args):
            m = c.split('::')[-1]
            W.trace.append('error:' + m)
            return serde_error(m, *[a for a in args])

        def missing(ex_, st, c, args):
            raw = getattr(st, 'cur_raw', '') or ''
            W.trace.append('missing_field')
            if re.search(r"missing_field::<'_, (std::option::)?Option<", raw):
                return ok(none())
            return err(serde_error('missing_field', args[0]))

        def std_serialize(ex_, st, c, args):
            # <T as Serialize>::serialize(&value, serializer) for a non-crate T (derive calls it directly for untagged / transparent representations)
            W.trace.append('std serialize')
            return W.ser_value(ex_, st, args[0])

        def std_deserialize(ex_, st, c, args):
            raw = getattr(st, 'cur_raw', '') or ''
            m = re.match(r"<(.*) as (?:\w+::)*Deserialize<'_>>::deserialize", raw)
            if not m:
                return NOTFOUND
            T = m.group(1)
            if re.match(r'(?:\w+::)*(HashMapContext|Value|Node)<', T):
                return NOTFOUND
            d = content_of(args[0])
            W.trace.append('std deserialize %s' % T[:30])
            return W.de_value(ex_, st, T, d.fields[0])

        def content_buf(ex_, st, c, args):
            m = c.split('::')[-1]
            if m == 'new' and 'ContentVisitor' in c:
                return Adt('ContentVisitor', 0, [])
            if m == 'deserialize' and 'ContentVisitor' in c:
                return ok(Adt('ContentBuf', 0, [content_of(args[1]).fields[0]]))
            if m == 'new' and 'ContentRefDeserializer' in c:
                return Adt('ModelDeserializer', 0, [D(args[0]).fields[0]])
            if m == 'new' and 'UntaggedUnitVisitor' in c:
                return Adt('UntaggedUnitVisitor', 0, [])
            if m == 'deserialize_any' and 'ContentRefDeserializer' in c:
                d = content_of(args[0])
                v = args[1]
                if isinstance(v, Adt) and v.ty == 'UntaggedUnitVisitor':
                    return ok(mkunit()) if kind_of(d.fields[0]) == 'unit' else err(serde_error('invalid_type', sstr('unit')))
            raise Unsupported('serde model: %s' % c[:120])

        from engine import NOTFOUND
        ex.overrides.append((re.compile(r'(\w+::)*__private\d*::de::content::\w+(<.*>)?::\w+|<(\w+::)*__private\d*::de::content::\w+<.*> as .*>::\w+'), content_buf))
        ex.overrides.append((re.compile(r'<(bool|i64|u64|f64|std::string::String|String|Vec<.*>|HashMap<.*>|<NumericTypes as .*>::(Int|Float)|std::option::Option<.*>|\(\)) as (\w+::)*Serialize>::serialize'), std_serialize))
        ex.overrides.append((re.compile(r"<.* as (\w+::)*Deserialize<'_>>::deserialize"), std_deserialize))
        ex.overrides.append((re.compile(r'<(__S|S|.*ModelSerializer.*) as (\w+::)*Serializer>::\w+'), ser))
        ex.overrides.append((re.compile(r'<<.* as (\w+::)*Serializer>::Serialize\w+ as (\w+::)*Serialize\w+>::\w+'), ser))
        ex.overrides.append((re.compile(r"<(__D|D) as (\w+::)*Deserializer<'_>>::\w+"), de))
        ex.overrides.append((re.compile(r"<(__A|A) as (\w+::)*(MapAccess|SeqAccess|EnumAccess)<'_>>::\w+"), acc))
        ex.overrides.append((re.compile(r"<<(__A|A) as (\w+::)*EnumAccess<'_>>::Variant as (\w+::)*VariantAccess<'_>>::\w+"), acc))
        ex.overrides.append((re.compile(r"<.* as (\w+::)*de::Error>::\w+"), errs))
        ex.overrides.append((re.compile(r'(\w+::)*__private\d*::de::missing_field'), missing))
        return ex
