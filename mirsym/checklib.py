"""Shared driver for the per-property checks: obligations, solver calls, cvc5 cross-check, replay,
known findings, evidence, exit codes (DESIGN 3.5)."""
import os, sys, json, time, random, subprocess, tempfile, traceback, hashlib, multiprocessing as mp
import z3
import frontend
from values import Unsupported

VERIF = frontend.VERIF
# evidence and replays go to /verif; scratch experiments (VERIF_REPO set to a scratch worktree) write under VERIF_WORK instead
_OUT = VERIF if os.path.realpath(frontend.REPO) == '/repo' else frontend.WORK
EVIDENCE_DIR = os.path.join(_OUT, 'evidence')
KNOWN = os.path.join(VERIF, 'known_findings.json')
REPLAY_DIR = os.path.join(_OUT, 'replays')


def env_tier():
    return os.environ.get('VERIF_TIER', 'quick')


def env_seed():
    try:
        return int(os.environ.get('VERIF_SEED', '0'))
    except ValueError:
        return 0


class UnitResult(object):
    """what one unit of work (one symbolic run + its oracle queries) reports back to the driver"""

    def __init__(self, unit):
        self.unit = unit
        self.paths = 0
        self.nontrivial_paths = 0
        self.obligations = 0
        self.discharged = 0
        self.sat = []            # list of counterexample dicts (JSON-able): must contain 'key' (role) and 'replay'
        self.unknown = []
        self.inconclusive = []   # strings
        self.solver_s = 0.0
        self.exec_s = 0.0
        self.feas_queries = 0
        self.samples = []
        self.bodies = set()
        self.models = set()
        self.cvc5 = dict(checked=0, agree=0, disagree=0, skipped=0)
        self.traces_validated = 0       # symbolic paths whose prediction (outcome under a model of the path condition) was confirmed natively
        self.extra = {}


class Prover(object):
    """discharges obligations `pc => claim` with z3; optional cvc5 re-decision"""

    def __init__(self, res, timeout_ms, cvc5_rate=0.0, rng=None):
        self.extra_models = []
        self.res = res
        self.timeout_ms = timeout_ms
        self.cvc5_rate = cvc5_rate
        self.rng = rng or random.Random(0)

    def prove(self, name, pc, claim, extra_assumptions=(), diversify=None):
        """returns ('unsat', None) | ('sat', model) | ('unknown', None)"""
        s = z3.Solver()
        s.set('timeout', self.timeout_ms)
        for c in pc:
            s.add(c)
        for c in extra_assumptions:
            s.add(c)
        s.add(z3.Not(claim))
        t0 = time.time()
        r = s.check()
        if r == z3.unknown:
            # one retry with five times the (wall-clock) limit: a loaded machine must not turn a decidable query into an inconclusive run
            s.set('timeout', int(self.timeout_ms * 5))
            r = s.check()
            s.set('timeout', self.timeout_ms)
        self.res.solver_s += time.time() - t0
        self.res.obligations += 1
        verdict = str(r)
        if r == z3.unsat:
            self.res.discharged += 1
        if self.cvc5_rate > 0 and r != z3.unknown and self.rng.random() < self.cvc5_rate:
            v2 = cvc5_decide(s, min(self.timeout_ms, 60000))
            if v2 in ('sat', 'unsat'):
                self.res.cvc5['checked'] += 1
                if v2 == verdict:
                    self.res.cvc5['agree'] += 1
                else:
                    self.res.cvc5['disagree'] += 1
                    self.res.inconclusive.append('solver disagreement on %s: z3=%s cvc5=%s' % (name, verdict, v2))
            else:
                self.res.cvc5['skipped'] += 1
        self.extra_models = []
        if r == z3.sat:
            m0 = s.model()
            # witness diversification: a counterexample region often contains a few "telling" points (signed zeros, infinities, powers of ten)
            # where the misbehaviour is observable natively although the solver's arbitrary model is not; collect a few more models
            if diversify:
                got = 0
                for extra in diversify:
                    if got >= 10:
                        break
                    s.push()
                    for e_ in extra:
                        s.add(e_)
                    s.set('timeout', min(self.timeout_ms, 10000))
                    if s.check() == z3.sat:
                        self.extra_models.append(s.model())
                        got += 1
                    s.pop()
            return 'sat', m0
        if r == z3.unknown:
            self.res.unknown.append(name)
            return 'unknown', None
        return 'unsat', None

    def feasible(self, pc):
        s = z3.Solver()
        s.set('timeout', self.timeout_ms)
        for c in pc:
            s.add(c)
        t0 = time.time()
        r = s.check()
        if r == z3.unknown:
            s.set('timeout', int(self.timeout_ms * 5))
            r = s.check()
            s.set('timeout', self.timeout_ms)
        self.res.solver_s += time.time() - t0
        if self.cvc5_rate > 0 and r != z3.unknown and self.rng.random() < self.cvc5_rate:
            v2 = cvc5_decide(s, min(self.timeout_ms, 60000))
            if v2 in ('sat', 'unsat'):
                self.res.cvc5['checked'] += 1
                if v2 == str(r):
                    self.res.cvc5['agree'] += 1
                else:
                    self.res.cvc5['disagree'] += 1
                    self.res.inconclusive.append('solver disagreement on a path-feasibility query: z3=%s cvc5=%s' % (r, v2))
            else:
                self.res.cvc5['skipped'] += 1
        if r == z3.unknown:
            return None, None
        return r == z3.sat, (s.model() if r == z3.sat else None)


def cvc5_decide(solver, timeout_ms):
    try:
        text = '(set-logic ALL)\n' + solver.to_smt2()
        with tempfile.NamedTemporaryFile('w', suffix='.smt2', delete=False, dir=frontend.WORK) as f:
            f.write(text)
            path = f.name
        try:
            r = subprocess.run(['cvc5', '--lang', 'smt2', '--tlimit=%d' % timeout_ms, path], capture_output=True, text=True,
                               timeout=timeout_ms / 1000.0 + 10)
            out = (r.stdout or '').strip().split('\n')
            if '(error' in (r.stdout or '') or '(error' in (r.stderr or ''):
                return 'error'
            return out[0] if out else 'error'
        finally:
            os.unlink(path)
    except Exception:
        return 'error'


# ---------------------------------------------------------------- the driver
def load_known():
    if not os.path.exists(KNOWN):
        return []
    return json.load(open(KNOWN))


def run_units(worker, units, procs=None, init=None, initargs=()):
    procs = procs or min(16, os.cpu_count() or 4)
    try:
        # build the native replay runner once, before forking: 16 workers racing on `cargo build` after a source change can see the binary vanish
        import replay
        replay.build('dev')
        replay.build('release')
    except BaseException as x:
        sys.stderr.write('runner pre-build problem: %r\n' % (x,))
    if procs <= 1 or len(units) <= 1:
        if init:
            init(*initargs)
        return [worker(u) for u in units]
    # A worker that dies (segfault in the solver library, out of memory) must not hang the run (multiprocessing.Pool.map would wait for ever):
    # futures + BrokenProcessPool; unfinished units are retried in smaller chunks, and given up as inconclusive after three broken pools.
    from concurrent.futures import ProcessPoolExecutor, as_completed
    from concurrent.futures.process import BrokenProcessPool
    results = [None] * len(units)
    pending = list(range(len(units)))
    chunk = max(1, min(8, len(units) // (procs * 4) or 1))
    hard_cap = float(os.environ.get('VERIF_UNIT_STALL_S', '3600'))
    while pending:
        groups = [pending[i:i + chunk] for i in range(0, len(pending), chunk)]
        ex = ProcessPoolExecutor(procs, mp_context=mp.get_context('fork'), initializer=init, initargs=initargs)
        futs = {ex.submit(_run_chunk, worker, [units[i] for i in g]): g for g in groups}
        broken = False
        try:
            for f in as_completed(futs, timeout=hard_cap):
                g = futs[f]
                try:
                    for i, r in zip(g, f.result()):
                        results[i] = r
                except BrokenProcessPool:
                    broken = True
                    break
        except Exception as x:         # includes the stall timeout
            broken = True
            sys.stderr.write('unit pool problem: %r\n' % (x,))
        finally:
            for p_ in list(getattr(ex, '_processes', {}).values()):
                try:
                    p_.kill()
                except Exception:
                    pass
            ex.shutdown(wait=False, cancel_futures=True)
        pending = [i for i in pending if results[i] is None]
        if not broken:
            continue
        # a pool broke: run what is left one unit per process, so that a dying unit only loses itself
        for i, r in _isolated(worker, units, pending, procs, init, initargs, hard_cap):
            results[i] = r
        pending = []
    return results


def _isolated(worker, units, idxs, procs, init, initargs, cap):
    ctx = mp.get_context('fork')

    def child(u, conn):
        try:
            if init:
                init(*initargs)
            conn.send(worker(u))
        finally:
            conn.close()
    todo = list(idxs)
    running = {}
    out = []
    while todo or running:
        while todo and len(running) < procs:
            i = todo.pop(0)
            a, b = ctx.Pipe(duplex=False)
            p_ = ctx.Process(target=child, args=(units[i], b))
            p_.start()
            b.close()
            running[i] = (p_, a, time.time())
        time.sleep(0.02)
        for i in list(running):
            p_, a, t0 = running[i]
            r = None
            done = False
            if a.poll():
                try:
                    r = a.recv()
                except Exception:
                    r = None
                done = True
            elif not p_.is_alive():
                done = True
            elif time.time() - t0 > cap:
                p_.kill()
                done = True
            if done:
                p_.join(1)
                a.close()
                del running[i]
                if r is None:
                    r = UnitResult(units[i] if isinstance(units[i], (str, int, float)) else repr(units[i])[:200])
                    r.inconclusive.append('the process running this unit died or stalled (exit code %s)' % p_.exitcode)
                out.append((i, r))
    return out


def _run_chunk(worker, us):
    return [worker(u) for u in us]


class safe_worker(object):
    """wrap a unit function so that engine limitations become 'inconclusive' records, not crashes"""

    def __init__(self, fn):
        self.fn = fn

    def __call__(self, unit):
        res = UnitResult(unit if isinstance(unit, (str, int, float)) else repr(unit)[:200])
        t0 = time.time()
        try:
            self.fn(unit, res)
        except Unsupported as u:
            res.inconclusive.append('unsupported: %s @ %s' % (u, getattr(u, 'where', None)))
        except Exception as x:
            res.inconclusive.append('engine error: %s' % ''.join(traceback.format_exception_only(type(x), x)).strip()[:300])
            res.extra['traceback'] = traceback.format_exc()[-1500:]
        res.extra['wall'] = time.time() - t0
        return res


def finish(pid, results, *, rule, explanation, assumptions, bounds, functions_hint=None, level='other', exhaustive=False,
           t0=None, replay_fn=None, extra=None):
    """aggregate unit results, replay counterexamples, apply known findings, write evidence, print verdict, exit."""
    tier = env_tier()
    seed = env_seed()
    known = [k for k in load_known() if k.get('property') == pid and k.get('status', 'open') == 'open']
    agg = dict(paths=0, nontrivial=0, obligations=0, discharged=0, solver_s=0.0, exec_s=0.0, feas=0)
    samples = []
    sat = []
    unknown = []
    inconc = []
    bodies = set()
    modelsu = set()
    cv = dict(checked=0, agree=0, disagree=0, skipped=0)
    traces = 0
    for r in results:
        traces += getattr(r, 'traces_validated', 0)
        agg['paths'] += r.paths
        agg['nontrivial'] += r.nontrivial_paths
        agg['obligations'] += r.obligations
        agg['discharged'] += r.discharged
        agg['solver_s'] += r.solver_s
        agg['exec_s'] += r.exec_s
        agg['feas'] += r.feas_queries
        sat.extend(r.sat)
        unknown.extend(['%s: %s' % (r.unit, u) for u in r.unknown])
        inconc.extend(['%s: %s' % (r.unit, u) for u in r.inconclusive])
        bodies |= r.bodies
        modelsu |= r.models
        for k in cv:
            cv[k] += r.cvc5[k]
    rng = random.Random(seed)
    pool = [s for r in results for s in r.samples]
    rng.shuffle(pool)
    samples = pool[:12]
    # ---- replay counterexamples natively; classify
    violations = []
    known_hits = {}
    nonrepro = []
    benign = []
    for ce in sat:
        verdict = 'reproduced'
        if replay_fn is not None:
            try:
                verdict, detail = replay_fn(ce)
                ce['replay_detail'] = detail
            except Exception as x:
                verdict, detail = 'error', repr(x)[:300]
                ce['replay_detail'] = detail
        if verdict == 'reproduced':
            kf = None
            for k in known:
                if k['key'] == ce.get('key'):
                    kf = k
                    break
            if kf is not None:
                known_hits.setdefault(kf['key'], []).append(ce)
            else:
                violations.append(ce)
        elif verdict == 'benign':
            benign.append(ce)
        else:
            nonrepro.append(ce)
    os.makedirs(EVIDENCE_DIR, exist_ok=True)
    os.makedirs(REPLAY_DIR, exist_ok=True)
    for key, ces in known_hits.items():
        print('KNOWN-FINDING: property=%s %s (e.g. %s)' % (pid, key, ces[0].get('witness', '')))
    vio_paths = []
    seen_keys = set()
    for i, ce in enumerate(violations):
        k = ce.get('key', 'v%d' % i)
        if k in seen_keys:
            continue
        seen_keys.add(k)
        path = os.path.join(REPLAY_DIR, '%s_%s.json' % (pid, hashlib.sha1(json.dumps(ce, sort_keys=True, default=str).encode()).hexdigest()[:10]))
        json.dump(ce, open(path, 'w'), indent=1, default=str)
        vio_paths.append(path)
        if len(vio_paths) <= 8:
            print('VIOLATION property=%s replay=%s' % (pid, path))
            print('  witness: %s' % (ce.get('witness'),))
        elif len(vio_paths) == 9:
            print('  (further violations are written to %s only)' % REPLAY_DIR)
    fe = frontend.build()
    wall = time.time() - (t0 or time.time())
    cov = dict(
        explanation=explanation,
        evaluations=max(agg['paths'], 1),
        distinct_nontrivial=agg['nontrivial'],
        rule=rule,
        samples=samples or [dict(note='no samples recorded')],
        obligations=agg['obligations'],
        discharged=agg['discharged'],
        sat=len(sat), unknown=len(unknown),
        units=len(results),
        feasibility_queries=agg['feas'],
        solver_seconds=round(agg['solver_s'], 2),
        symbolic_execution_seconds=round(agg['exec_s'], 2),
        bounds=bounds,
        functions_encoded=sorted(b for b in bodies if not b.startswith('__'))[:400],
        std_models_used=sorted(modelsu)[:300],
        source_hash=fe['hash'],
        cvc5_cross_check=cv,
        traces_validated_against_impl=traces,
        known_findings_hit=sorted(known_hits),
        not_reproduced=len(nonrepro),
        proxy_only_counterexamples=len(benign),
        inconclusive=inconc[:20],
        exhaustive=bool(exhaustive),
        checker_cmd='./check %s' % pid,
        trusted_base=['rustc MIR (nightly) as semantics of the source', 'mirsym MIR semantics + std models (validated: mirsym/validate.py, kani/)', 'z3 4.x (python3-vt)', 'cvc5 1.0 on sampled queries'],
    )
    if extra:
        cov.update(extra)
    ev = dict(property_id=pid, tier=tier, seed=seed, level=level, coverage=cov, assumptions=assumptions, wall_s=round(wall, 2),
              violations=len(vio_paths))
    json.dump(ev, open(os.path.join(EVIDENCE_DIR, '%s.json' % pid), 'w'), indent=1, default=str)
    print('%s tier=%s: %d units, %d paths (%d non-trivial), %d obligations, %d discharged, %d sat (%d known, %d new, %d not reproduced), %d unknown, %d inconclusive; solver %.1fs, wall %.1fs'
          % (pid, tier, len(results), agg['paths'], agg['nontrivial'], agg['obligations'], agg['discharged'], len(sat),
             sum(len(v) for v in known_hits.values()), len(violations), len(nonrepro), len(unknown), len(inconc), agg['solver_s'], wall))
    import collections
    kc = collections.Counter(ce.get('key') for ce in sat)
    if kc:
        print('  counterexample roles: %s' % dict(kc.most_common(12)))
    for x in (inconc + unknown)[:10]:
        print('  INCONCLUSIVE: %s' % x)
    for ce in nonrepro[:5]:
        print('  NOT-REPRODUCED: %s -> %s' % (ce.get('witness'), ce.get('replay_detail')))
    if benign:
        print('  %d solver counterexamples to the checked proxy are not counterexamples to the property (see evidence): e.g. %s' % (len(benign), benign[0].get('witness')))
    if vio_paths:
        sys.exit(1)
    if inconc or unknown or nonrepro:
        sys.exit(2)
    sys.exit(0)
