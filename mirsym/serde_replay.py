"""Native side of C16: /verif/runner_serde (evalexpr with the `serde` feature + ron, the crate's own dev-dependency) round trips contexts and
expression strings through RON.  Used to replay solver counterexamples and to validate the data-model assumption on a corpus."""
import os, subprocess, sys, struct, shutil
from frontend import VERIF, WORK, REPO, src_hash
import replay as rp

SRC = os.path.join(VERIF, 'runner_serde')
TARGET = os.path.join(WORK, 'runner-serde-target')
_built = {}


def crate_dir():
    if os.path.realpath(REPO) == '/repo':
        return SRC
    d = os.path.join(WORK, 'runner-serde-src')
    os.makedirs(os.path.join(d, 'src'), exist_ok=True)
    toml = open(os.path.join(SRC, 'Cargo.toml')).read().replace('path = "/repo"', 'path = "%s"' % os.path.realpath(REPO))
    open(os.path.join(d, 'Cargo.toml'), 'w').write(toml)
    shutil.copy(os.path.join(SRC, 'src', 'main.rs'), os.path.join(d, 'src', 'main.rs'))
    shutil.copy(os.path.join(SRC, 'Cargo.lock'), os.path.join(d, 'Cargo.lock'))
    return d


def build(profile='dev'):
    """-> (path, None) or (None, compiler message)"""
    key = (profile, src_hash())
    if key in _built:
        return _built[key]
    env = dict(os.environ)
    env.update(RUSTUP_TOOLCHAIN='1.81.0', CARGO_NET_OFFLINE='true', CARGO_TARGET_DIR=TARGET)
    cmd = ['cargo', 'build', '--offline', '--quiet'] + (['--release'] if profile == 'release' else [])
    r = subprocess.run(cmd, cwd=crate_dir(), env=env, capture_output=True, text=True)
    if r.returncode != 0:
        errs = [l for l in r.stderr.split('\n') if l.startswith('error')]
        _built[key] = (None, '; '.join(errs[:3]) or r.stderr[-400:])
    else:
        _built[key] = (os.path.join(TARGET, 'release' if profile == 'release' else 'debug', 'verif-runner-serde'), None)
    return _built[key]


def ctx_line(variables, disabled, with_fn):
    return 'ctx %d %d %s' % (1 if disabled else 0, 1 if with_fn else 0, ' '.join('%s=%s' % (rp.hx(n), rp.enc_value(v)) for n, v in variables))


def run_lines(lines, profile='dev'):
    exe, msg = build(profile)
    if exe is None:
        return None, msg
    r = subprocess.run([exe], input='\n'.join(lines) + '\n', capture_output=True, text=True, timeout=300)
    out = [l for l in r.stdout.split('\n') if l]
    if r.returncode != 0 or len(out) != len(lines):
        return None, 'runner exit %s, %d of %d answers: %s' % (r.returncode, len(out), len(lines), r.stderr[-300:])
    return out, None


def fix(v):
    """json round trip turns tuples into lists"""
    if isinstance(v, (list, tuple)):
        if v and v[0] == 'Tuple':
            return ('Tuple', [fix(x) for x in v[1]])
        return tuple(v)
    return v


def replay_ce(ce):
    details = []
    bad = False
    for prof in ('dev', 'release'):
        if ce.get('node'):
            lines = ['node %s' % rp.hx(s) for s in ['1 + 2', 'a = 3; a * 2', '', '1 +', '(', '"x" + "y"', 'f(1, 2)', 'true && !false', ' 1', '1 ', '1 /* c */ + 1', '5 5', ')(', ' ', '\t1+\n2 ',
                                                    '" a "', '" "', 'A', 'a', 'É + é', '"\\\\"', '"\\q"', '1e3', '0xFF', '1;', ';1', '\u00a01', 'x\u2003=\u20031', '"', '/*', '1 /*', 'a //b']]
        else:
            variables = [(n, fix(v)) for n, v in ce['pre_vars']]
            for i, (n, v) in enumerate(variables):
                if v[0] == 'Float' and v[1] == 'nan':
                    variables[i] = (n, ('Float', 0x7ff8000000000000))
            lines = [ctx_line(variables, d, w) for d in (False, True) for w in (False, True)]
            # plus a fixed family that exercises every value type
            allv = [('a', ('Int', -5)), ('b', ('Float', 0x3ff8000000000000)), ('c', ('Boolean', True)), ('d', ('String', 'x"y\\z')), ('e', ('Empty',)),
                    ('t', ('Tuple', [('Int', 1), ('Tuple', [('Float', 0x3fb999999999999a), ('Empty',)]), ('String', '')]))]
            lines += [ctx_line(allv, d, w) for d in (False, True) for w in (False, True)]
        out, msg = run_lines(lines, prof)
        if out is None:
            details.append('%s: native replay unavailable: %s' % (prof, msg))
            continue
        for l, o in zip(lines, out):
            if ' DIFF' in o:
                bad = True
                details.append('%s: %s -> %s' % (prof, l[:120], o[:200]))
    if bad:
        return 'reproduced', details[:6]
    if ce.get('proxy') and not details:
        return 'benign', ['the precompiled string differs from the deserialized one, but every probe expression deserializes to the tree (or error message) of precompiling it']
    return 'not_reproduced', details[:4] or ['RON round trips agree natively']


def replay(ce):
    return replay_ce(ce)


def corpus():
    """deterministic corpus for the model validation: every value type, extreme payloads, nesting, names"""
    f = lambda x: ('Float', struct.unpack('<Q', struct.pack('<d', x))[0])
    floats = [0.0, -0.0, 1.5, 0.1, -2.5e-8, 1e300, 5e-324, 2.2250738585072014e-308, 1.7976931348623157e308, float('inf'), float('-inf'), 123456789.123456789, 1e22, 9007199254740993.0]
    vals = [('Int', 0), ('Int', -1), ('Int', 2 ** 63 - 1), ('Int', -2 ** 63), ('Int', 42)] + [f(x) for x in floats] + [('Float', 0x7ff8000000000000), ('Float', 0x0000000000000001),
            ('Float', 0x3ff0000000000001), ('Boolean', True), ('Boolean', False), ('String', ''), ('String', 'a b'), ('String', 'q"uo\\te\n'), ('String', 'é€\U0001f600'),
            ('Empty',), ('Tuple', []), ('Tuple', [('Int', 1)]), ('Tuple', [('Tuple', [('Tuple', [('Empty',)])]), ('String', 'x'), f(2.0)])]
    lines = []
    for i, v in enumerate(vals):
        lines.append(ctx_line([('v', v)], i % 2 == 0, i % 3 == 0))
    lines.append(ctx_line([('n%d' % i, v) for i, v in enumerate(vals)], True, True))
    lines.append(ctx_line([], False, False))
    lines.append(ctx_line([], True, True))
    lines.append(ctx_line([('über', ('Int', 1)), ('with space', ('Int', 2)), ('', ('Int', 3))], False, False))
    for s in ['1 + 2', 'a = 3; a * 2', '', '1 +', '(', '"x" + "y"', 'f(1, 2)', 'true && !false', '1 /* c */ + 1', '5 5', ')(', 'x = (1, 2.5, "s")', 'é + 1', '"\\\\"', '"\\q"']:
        lines.append('node %s' % rp.hx(s))
    return lines


def validate():
    """-> (cases, disagreements, message)"""
    lines = corpus()
    total = 0
    diffs = []
    for prof in ('dev', 'release'):
        out, msg = run_lines(lines, prof)
        if out is None:
            return 0, [], msg
        total += len(out)
        diffs += ['%s: %s -> %s' % (prof, l[:100], o[:160]) for l, o in zip(lines, out) if ' DIFF' in o]
    return total, diffs, None


if __name__ == '__main__':
    print(validate())
