"""Value shapes: a shape is a variant + container lengths; payloads are solver variables."""
import z3
from values import *

SHAPES_BASIC = ['I', 'F', 'B', 'S0', 'S1', 'S2', 'T0', 'T1', 'T2', 'E']


def make_value(C, shape, prefix, cons):
    """build a symbolic Value of the given shape; appends validity constraints to cons; returns (value, spec)
    spec is a python description mirroring the value: ('I', term) ('F', term) ('B', term) ('S', [char terms]) ('T', [specs]) ('E',)"""
    if shape == 'I':
        t = z3.BitVec(prefix + '_i', 64)
        return C.v_int(t), ('I', t)
    if shape == 'F':
        t = z3.FP(prefix + '_f', F64)
        return C.v_float(t), ('F', t)
    if shape == 'B':
        t = z3.Bool(prefix + '_b')
        return C.v_bool(t), ('B', t)
    if shape.startswith('S'):
        n = int(shape[1:])
        chars = []
        for i in range(n):
            c = z3.BitVec('%s_c%d' % (prefix, i), 32)
            cons.append(valid_scalar(c))
            chars.append(c)
        return C.v_str(SStr([Int(c, False) for c in chars])), ('S', chars)
    if shape == 'E':
        return C.v_empty(), ('E',)
    if shape == 'T0':
        return C.v_tuple([]), ('T', [])
    if shape == 'T1':
        v, s = make_value(C, 'I', prefix + '_0', cons)
        return C.v_tuple([v]), ('T', [s])
    if shape == 'T2':      # (Float, (Int))
        v0, s0 = make_value(C, 'F', prefix + '_0', cons)
        v1, s1 = make_value(C, 'T1', prefix + '_1', cons)
        return C.v_tuple([v0, v1]), ('T', [s0, s1])
    if shape.startswith('T['):      # explicit: T[I,F,S1]
        inner = split_shapes(shape[2:-1])
        vs = []
        ss = []
        for i, sh in enumerate(inner):
            v, s = make_value(C, sh, '%s_%d' % (prefix, i), cons)
            vs.append(v)
            ss.append(s)
        return C.v_tuple(vs), ('T', ss)
    raise ValueError(shape)


def split_shapes(s):
    out = []
    depth = 0
    cur = ''
    for ch in s:
        if ch == '[':
            depth += 1
        elif ch == ']':
            depth -= 1
        if ch == ',' and depth == 0:
            out.append(cur)
            cur = ''
        else:
            cur += ch
    if cur:
        out.append(cur)
    return out


def spec_type(s):
    return {'I': 'Int', 'F': 'Float', 'B': 'Boolean', 'S': 'String', 'T': 'Tuple', 'E': 'Empty'}[s[0]]


def spec_concrete(s, model):
    """spec + z3 model -> canonical python value (as harness.render_value)"""
    from harness import f64_bits
    k = s[0]
    ev = lambda t: z3.simplify(model.eval(t, model_completion=True))
    if k == 'I':
        return ('Int', ev(s[1]).as_signed_long())
    if k == 'F':
        return ('Float', f64_bits(s[1], model))
    if k == 'B':
        return ('Boolean', z3.is_true(ev(s[1])))
    if k == 'S':
        return ('String', ''.join(chr(ev(c).as_long()) for c in s[1]))
    if k == 'T':
        return ('Tuple', [spec_concrete(x, model) for x in s[1]])
    return ('Empty',)


def value_matches_spec(meta, v, spec):
    """z3 Bool: the (symbolic) Value Adt `v` equals the reference spec bit for bit (one NaN)"""
    if not (isinstance(v, Adt) and v.ty == 'Value') or not isinstance(v.variant, int):
        return z3.BoolVal(False)
    name = meta.enums['Value'][v.variant][0]
    if name != spec_type(spec):
        return z3.BoolVal(False)
    k = spec[0]
    if k == 'I':
        return v.fields[0].t == spec[1]
    if k == 'F':
        return v.fields[0].t == spec[1]
    if k == 'B':
        return v.fields[0] == spec[1]
    if k == 'S':
        items = v.fields[0].items
        if len(items) != len(spec[1]) or not all(isinstance(c, Int) for c in items):
            return z3.BoolVal(False)
        return z3.And(*[c.t == e for c, e in zip(items, spec[1])]) if items else z3.BoolVal(True)
    if k == 'T':
        items = v.fields[0].items
        if len(items) != len(spec[1]):
            return z3.BoolVal(False)
        return z3.And(*[value_matches_spec(meta, x, e) for x, e in zip(items, spec[1])]) if items else z3.BoolVal(True)
    return z3.BoolVal(True)


def value_to_spec(meta, v):
    """symbolic Value Adt -> spec (for values produced by the code, e.g. error payloads)"""
    name = meta.enums['Value'][v.variant][0]
    if name == 'Int':
        return ('I', v.fields[0].t)
    if name == 'Float':
        return ('F', v.fields[0].t)
    if name == 'Boolean':
        return ('B', v.fields[0])
    if name == 'String':
        return ('S', [c.t for c in v.fields[0].items])
    if name == 'Tuple':
        return ('T', [value_to_spec(meta, x) for x in v.fields[0].items])
    return ('E',)


FLOAT_POOL = [0.0, -0.0, 0.5, 1.0, -1.0, 2.0, 3.0, 5.0, 7.0, 10.0, 100.0, 1000.0, 1e15, 1e-7, float('inf'), float('-inf'), float('nan'), 9007199254740993.0, 0.1]
INT_POOL = [0, 1, -1, 2, 10, 1000, 2 ** 63 - 1, -2 ** 63, 2 ** 53 + 1, 3037000500, -3037000500, 3037000499, 64, 63, 255]


STRING_POOL = ['\u0391\u03a3', 'A\u03a3 ', '\u00df\u00df', '\u0130I', ' a ', 'aA', '\u01c5x', '\u4e0a\u010a', 'a\u00e9', '\u20ac\u00e4']


def diversify_plan(specs):
    """list of constraint lists (each a conjunction) to try on top of a satisfiable counterexample query: scalar leaves are pinned to
    telling values one at a time, whole strings to telling texts (final sigma, sharp s, dotted I, surrounding blanks, multi-byte characters)"""
    import models
    out = []

    def is_var(t):
        return z3.is_const(t) and t.decl().kind() == z3.Z3_OP_UNINTERPRETED

    def walk(s):
        if s[0] == 'F' and is_var(s[1]):
            for x in FLOAT_POOL:
                out.append([s[1] == models.fp_from_py(x)])
        elif s[0] == 'I' and is_var(s[1]):
            for x in INT_POOL:
                out.append([s[1] == z3.BitVecVal(x, 64)])
        elif s[0] == 'S' and s[1] and all(is_var(c) for c in s[1]):
            n = len(s[1])
            for text in STRING_POOL:
                t = (text * n)[:n] if len(text) < n else text[-n:]
                # keep the telling suffix: capital sigma (etc.) at the end, padded on the left with the first character
                t = (text[0] * max(0, n - len(text)) + text)[-n:]
                out.append([c == ord(ch) for c, ch in zip(s[1], t)])
        elif s[0] == 'T':
            for x in s[1]:
                walk(x)
    for sp in specs:
        if sp is not None:
            walk(sp)
    # interleave so that the cap on extra models does not starve later variables
    import random as _r
    _r.Random(0).shuffle(out)
    return out
