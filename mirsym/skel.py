"""Token skeletons: sequences of token kinds whose operator / separator positions are solver variables."""
import z3
from values import *
from harness import *

BIN_TOKENS = ['Plus', 'Minus', 'Star', 'Slash', 'Percent', 'Hat', 'Eq', 'Neq', 'Gt', 'Lt', 'Geq', 'Leq', 'And', 'Or']
PRE_TOKENS = ['Minus', 'Not']
ASG_TOKENS = ['Assign', 'PlusAssign', 'MinusAssign', 'StarAssign', 'SlashAssign', 'PercentAssign', 'HatAssign', 'AndAssign', 'OrAssign']
SEQ_TOKENS = ['Comma', 'Semicolon']
TOK2OP_BIN = {'Plus': 'Add', 'Minus': 'Sub', 'Star': 'Mul', 'Slash': 'Div', 'Percent': 'Mod', 'Hat': 'Exp', 'Eq': 'Eq', 'Neq': 'Neq',
              'Gt': 'Gt', 'Lt': 'Lt', 'Geq': 'Geq', 'Leq': 'Leq', 'And': 'And', 'Or': 'Or'}
TOK2OP_PRE = {'Minus': 'Neg', 'Not': 'Not'}
TOK2OP_ASG = {'Assign': 'Assign', 'PlusAssign': 'AddAssign', 'MinusAssign': 'SubAssign', 'StarAssign': 'MulAssign', 'SlashAssign': 'DivAssign',
              'PercentAssign': 'ModAssign', 'HatAssign': 'ExpAssign', 'AndAssign': 'AndAssign', 'OrAssign': 'OrAssign'}
TOK2OP_SEQ = {'Comma': 'Tuple', 'Semicolon': 'Chain'}
TOKEN_TEXT = {'Plus': '+', 'Minus': '-', 'Star': '*', 'Slash': '/', 'Percent': '%', 'Hat': '^', 'Eq': '==', 'Neq': '!=', 'Gt': '>', 'Lt': '<',
              'Geq': '>=', 'Leq': '<=', 'And': '&&', 'Or': '||', 'Not': '!', 'LBrace': '(', 'RBrace': ')', 'Assign': '=',
              'PlusAssign': '+=', 'MinusAssign': '-=', 'StarAssign': '*=', 'SlashAssign': '/=', 'PercentAssign': '%=', 'HatAssign': '^=',
              'AndAssign': '&&=', 'OrAssign': '||=', 'Comma': ',', 'Semicolon': ';'}
# documented precedences (README table); unary 110; application above everything
SPEC_PREC = {'Add': 95, 'Sub': 95, 'Mul': 100, 'Div': 100, 'Mod': 100, 'Exp': 120, 'Eq': 80, 'Neq': 80, 'Gt': 80, 'Lt': 80, 'Geq': 80,
             'Leq': 80, 'And': 75, 'Or': 70, 'Neg': 110, 'Not': 110, 'Assign': 50, 'AddAssign': 50, 'SubAssign': 50, 'MulAssign': 50,
             'DivAssign': 50, 'ModAssign': 50, 'ExpAssign': 50, 'AndAssign': 50, 'OrAssign': 50, 'Tuple': 40, 'Chain': 0}

# skeleton alphabet (one char per token kind):
#   a..e identifier operand   f,g,h identifier in call position   1 int literal   2 float literal   t boolean   s string
#   ? BIN slot   ! PRE slot   = ASG slot   ~ SEQ slot   ( )   and concrete tokens written as {Name}


class Skeleton(object):
    def __init__(self, C, spec):
        """spec: list of kind strings: 'id:NAME', 'int', 'float', 'bool', 'str', 'BIN', 'PRE', 'ASG', 'SEQ', '(', ')', or 'tok:Name'"""
        self.C = C
        self.spec = list(spec)
        self.tokens = []
        self.slots = []          # (index, kind, var)
        self.cons = []
        VI = C.VI
        for i, k in enumerate(self.spec):
            if k in ('BIN', 'PRE', 'ASG', 'SEQ', 'BIN13'):
                names = {'BIN': BIN_TOKENS, 'PRE': PRE_TOKENS, 'ASG': ASG_TOKENS, 'SEQ': SEQ_TOKENS,
                         'BIN13': [t for t in BIN_TOKENS if t != 'Minus']}[k]
                v = z3.BitVec('slot%d_%s' % (i, k), 64)
                self.cons.append(z3.Or(*[v == VI('Token', n) for n in names]))
                self.slots.append((i, k, v))
                self.tokens.append(Adt('Token', v, []))
            elif k == '(':
                self.tokens.append(C.token('LBrace'))
            elif k == ')':
                self.tokens.append(C.token('RBrace'))
            elif k.startswith('tok:'):
                self.tokens.append(C.token(k[4:]))
            elif k.startswith('id:'):
                self.tokens.append(C.token('Identifier', sstr(k[3:])))
            elif k == 'int':
                self.tokens.append(C.token('Int', Int(z3.BitVecVal(1, 64), True)))
            elif k == 'float':
                self.tokens.append(C.token('Float', Fl(z3.FPVal(2.5, F64))))
            elif k == 'bool':
                self.tokens.append(C.token('Boolean', z3.BoolVal(True)))
            elif k == 'str':
                self.tokens.append(C.token('String', sstr('s')))
            else:
                raise ValueError(k)

    def slot_at(self, i):
        for j, k, v in self.slots:
            if j == i:
                return k, v
        return None

    def run(self, extra_cons=()):
        C = self.C
        return C.run('tokens_to_operator_tree', [VecV(self.tokens)], pc=self.cons + list(extra_cons))

    def render(self, model=None):
        """concrete source text for a model of the slot variables"""
        C = self.C
        out = []
        names = C.meta.enums['Token']
        for i, k in enumerate(self.spec):
            sl = self.slot_at(i)
            if sl:
                v = model.eval(sl[1], model_completion=True).as_long()
                out.append(TOKEN_TEXT[names[v][0]])
            elif k in '()':
                out.append(k)
            elif k.startswith('tok:'):
                out.append(TOKEN_TEXT[k[4:]])
            elif k.startswith('id:'):
                out.append(k[3:])
            else:
                out.append({'int': '1', 'float': '2.5', 'bool': 'true', 'str': '"s"'}[k])
        return ' '.join(out)

    def text(self):
        return ' '.join({'BIN': '◻', 'BIN13': '◻', 'PRE': '◇', 'ASG': '◈', 'SEQ': '▫'}.get(k, k[3:] if k.startswith('id:') else k[4:] if k.startswith('tok:') else
                        {'int': '1', 'float': '2.5', 'bool': 'true', 'str': '"s"'}.get(k, k)) for k in self.spec)


def op_term(node):
    v = node.fields[0].variant
    return z3.BitVecVal(v, 64) if isinstance(v, int) else v


def op_concrete(C, node):
    v = node.fields[0].variant
    return C.meta.enums['Operator'][v][0] if isinstance(v, int) else None


def children(node):
    return node.fields[1].items


def spec_prec(C, var):
    r = z3.IntVal(-1)
    for name, p in SPEC_PREC.items():
        r = z3.If(var == C.VI('Operator', name), z3.IntVal(p), r)
    return r


def expected_op(C, kind, slotvar):
    table = {'BIN': TOK2OP_BIN, 'BIN13': TOK2OP_BIN, 'PRE': TOK2OP_PRE, 'ASG': TOK2OP_ASG, 'SEQ': TOK2OP_SEQ}[kind]
    r = z3.BitVecVal(9999, 64)
    for tk, op in table.items():
        r = z3.If(slotvar == C.VI('Token', tk), z3.BitVecVal(C.VI('Operator', op), 64), r)
    return r


def is_one_of(C, var, names):
    return z3.Or(*[var == C.VI('Operator', n) for n in names])
