"""mirsym executor: symbolic execution of parsed MIR with z3, state merging at post-dominators."""
import re, copy, time, os, sys
import z3
from values import *
from mirparse import Place, Operand
from frontend import strip_generics

DEBUG = bool(os.environ.get('MIRSYM_DEBUG'))

INT_BITS = {'i8': 8, 'i16': 16, 'i32': 32, 'i64': 64, 'i128': 128, 'isize': 64,
            'u8': 8, 'u16': 16, 'u32': 32, 'u64': 64, 'u128': 128, 'usize': 64, 'char': 32}


class NeedFork(Exception):
    def __init__(self, options):
        self.options = options


class Tail(object):
    """model result: perform this call instead (same destination)"""
    def __init__(self, callee, args, negate=False):
        self.callee = callee
        self.args = args
        self.negate = negate


NOTFOUND = object()


class SplitIndex(Exception):
    def __init__(self, local, term, signed):
        self.local, self.term, self.signed = local, term, signed


class NoMerge(Exception):
    pass


# ---------------------------------------------------------------- state
class Frame(object):
    __slots__ = ('body', 'locals', 'block', 'idx', 'dest', 'ret_block', 'negate')

    def __init__(self, body):
        self.body = body
        self.locals = {}
        self.block = 'bb0'
        self.idx = 0
        self.dest = None
        self.ret_block = None
        self.negate = False


class State(object):
    def __init__(self):
        self.frames = []
        self.pc = []
        self.log = []
        self.steps = 0
        self.next_cell = 1
        self.cur_args = None
        self.cur_raw = None
        self.try_kind = 'Result'
        self.tls = {}              # thread-local key name -> id of the anchor cell holding its value
        self.anchors = []          # cells allocated by the harness (kept reachable after the root frame returns)
        self.decisions = []
        self.dec_pos = 0
        self.notes = []

    def fork(self):
        return clone_state(self)

    def new_cell(self, val=UNINIT):
        c = Cell(val, self.next_cell)
        self.next_cell += 1
        return c


# ---------------------------------------------------------------- state cloning (a tailored deep copy: ~4x faster than copy.deepcopy)
_IMMUTABLE = (Int, Fl, Opaque, FnItem, PyFn, DiscrV, type(UNINIT), str, int, float, bool, bytes, type(None))


def clone_cell(c, memo):
    k = id(c)
    n = memo.get(k)
    if n is None:
        n = Cell(None, c.id, c.transparent)
        memo[k] = n
        n.val = clone_value(c.val, memo)
    return n


def clone_value(v, memo):
    t = type(v)
    if t in _IMMUTABLE or isinstance(v, z3.AstRef) or isinstance(v, _IMMUTABLE):
        return v
    if t is Adt:
        return Adt(v.ty, v.variant, [clone_value(f, memo) for f in v.fields])
    if t is Ref:
        return Ref(clone_cell(v.cell, memo), v.path, v.mut)
    if t is VecV:
        return VecV([clone_value(f, memo) for f in v.items])
    if t is SStr:
        return SStr(v.items)
    if t is BoxV:
        return BoxV(clone_cell(v.cell, memo))
    if t is HashMapV:
        return HashMapV([clone_value(k, memo) for k in v.keys], [clone_value(x, memo) for x in v.vals])
    if t is Closure:
        return Closure(v.name, [clone_value(c, memo) for c in v.captures])
    if t is IterV:
        return IterV(clone_value(v.ref, memo), v.pos, v.end)
    if t is CharsV:
        return CharsV(clone_value(v.ref, memo), v.pos, v.end)
    if t is OwnIter:
        return OwnIter([clone_value(x, memo) for x in v.items], v.pos)
    if t is PeekV:
        return PeekV(clone_value(v.it, memo))
    if t is AdaptV:
        return AdaptV(v.kind, clone_value(v.it, memo), clone_value(v.fn, memo), clone_value(v.cur, memo))
    if t is FmtArgs:
        return FmtArgs([p if isinstance(p, str) else (p[0], clone_value(p[1], memo)) for p in v.pieces])
    if t is FmtArg:
        return FmtArg(v.kind, clone_value(v.ref, memo))
    if t is tuple:
        return tuple(clone_value(x, memo) for x in v)
    if t is list:
        return [clone_value(x, memo) for x in v]
    if t is Cell:
        return clone_cell(v, memo)
    return copy.deepcopy(v, memo)


def clone_state(st):
    memo = {}
    n = State.__new__(State)
    n.frames = []
    for f in st.frames:
        nf = Frame(f.body)
        nf.locals = {k: clone_cell(c, memo) for k, c in f.locals.items()}
        nf.block = f.block
        nf.idx = f.idx
        nf.dest = (clone_cell(f.dest[0], memo), f.dest[1]) if f.dest is not None else None
        nf.ret_block = f.ret_block
        nf.negate = f.negate
        n.frames.append(nf)
    n.pc = list(st.pc)
    n.log = [clone_value(x, memo) for x in st.log]
    n.steps = st.steps
    n.next_cell = st.next_cell
    n.cur_args = clone_value(st.cur_args, memo) if st.cur_args is not None else None
    n.cur_raw = st.cur_raw
    n.try_kind = getattr(st, 'try_kind', 'Result')
    n.tls = dict(getattr(st, 'tls', {}))
    n.anchors = [clone_cell(c, memo) for c in st.anchors]
    n.decisions = list(st.decisions)
    n.dec_pos = st.dec_pos
    n.notes = [clone_value(x, memo) for x in st.notes]
    return n


class Outcome(object):
    def __init__(self, state, kind, value):
        self.state = state
        self.kind = kind        # 'return' | 'panic'
        self.value = value
        self.pc = list(state.pc)
        self.log = list(state.log)

    def pc_term(self):
        return z3.And(*self.pc) if self.pc else z3.BoolVal(True)


# ---------------------------------------------------------------- identical / merge
def identical(a, b):
    """structural identity of two values (z3 terms compared syntactically)"""
    if type(a) is not type(b):
        if z3.is_expr(a) and z3.is_expr(b):
            return a.eq(b)
        return False
    if isinstance(a, (Int, Fl, DiscrV)):
        return a.t.eq(b.t)
    if z3.is_expr(a):
        return a.eq(b)
    if isinstance(a, Adt):
        if a.ty != b.ty or len(a.fields) != len(b.fields):
            return False
        if isinstance(a.variant, int) != isinstance(b.variant, int):
            return False
        if isinstance(a.variant, int):
            if a.variant != b.variant:
                return False
        elif not a.variant.eq(b.variant):
            return False
        return all(identical(x, y) for x, y in zip(a.fields, b.fields))
    if isinstance(a, (VecV, SStr)):
        return len(a.items) == len(b.items) and all(identical(x, y) for x, y in zip(a.items, b.items))
    if isinstance(a, Opaque):
        return a.kind == b.kind and len(a.args) == len(b.args) and all(identical(x, y) for x, y in zip(a.args, b.args))
    if isinstance(a, Ref):
        return a.cell.id == b.cell.id and a.path == b.path
    if isinstance(a, (tuple, list)):
        return len(a) == len(b) and all(identical(x, y) for x, y in zip(a, b))
    if isinstance(a, HashMapV):
        return identical(a.keys, b.keys) and identical(a.vals, b.vals)
    if isinstance(a, PyFn):
        return a.tag == b.tag
    if isinstance(a, FnItem):
        return a.name == b.name
    if isinstance(a, Closure):
        return a.name == b.name and identical(a.captures, b.captures)
    if isinstance(a, BoxV):
        return a.cell.id == b.cell.id
    return a == b


def ite_chain(guards, terms):
    r = terms[-1]
    for g, t in zip(reversed(guards[:-1]), reversed(terms[:-1])):
        r = z3.If(g, t, r)
    return z3.simplify(r)


def compatible(a, b):
    if len(a.frames) != len(b.frames):
        return False
    for fa, fb in zip(a.frames, b.frames):
        if fa.body is not fb.body or fa.block != fb.block or fa.idx != fb.idx or fa.ret_block != fb.ret_block or fa.negate != fb.negate:
            return False
    if len(a.log) != len(b.log) or not all(identical(x, y) for x, y in zip(a.log, b.log)):
        return False
    return True


def merge_group(sts, base, drop_pc=False, dry=False):
    guards = []
    for s in sts:
        suffix = s.pc[base:]
        guards.append(z3.And(*suffix) if len(suffix) > 1 else (suffix[0] if suffix else z3.BoolVal(True)))
    a = sts[0]
    seen = {}
    plan = []

    def mv(xs):
        x = xs[0]
        if any(v is UNINIT for v in xs):
            return UNINIT
        if all(isinstance(v, Int) for v in xs):
            if all(v.t.eq(x.t) for v in xs):
                return x
            if any(v.t.size() != x.t.size() for v in xs):
                raise NoMerge()
            return Int(ite_chain(guards, [v.t for v in xs]), x.signed)
        if all(isinstance(v, Fl) for v in xs):
            if all(v.t.eq(x.t) for v in xs):
                return x
            return Fl(ite_chain(guards, [v.t for v in xs]))
        if all(z3.is_expr(v) and z3.is_bool(v) for v in xs):
            return x if all(v.eq(x) for v in xs) else ite_chain(guards, list(xs))
        if any(type(v) is not type(x) for v in xs):
            raise NoMerge()
        if isinstance(x, Adt):
            if any(v.ty != x.ty or len(v.fields) != len(x.fields) for v in xs):
                raise NoMerge()
            if all(isinstance(v.variant, int) and v.variant == x.variant for v in xs):
                var = x.variant
            elif not x.fields or x.ty in SAME_SHAPE_OK:
                var = ite_chain(guards, [z3.BitVecVal(v.variant, 64) if isinstance(v.variant, int) else v.variant for v in xs])
            else:
                raise NoMerge()
            return Adt(x.ty, var, [mv([v.fields[i] for v in xs]) for i in range(len(x.fields))])
        if isinstance(x, VecV):
            if any(len(v.items) != len(x.items) for v in xs):
                raise NoMerge()
            return VecV([mv([v.items[i] for v in xs]) for i in range(len(x.items))])
        if isinstance(x, SStr):
            if any(len(v.items) != len(x.items) for v in xs):
                raise NoMerge()
            return SStr([mv([v.items[i] for v in xs]) for i in range(len(x.items))])
        if isinstance(x, Opaque):
            if all(identical(v, x) for v in xs):
                return x
            raise NoMerge()
        if isinstance(x, HashMapV):
            if any(len(v.keys) != len(x.keys) for v in xs):
                raise NoMerge()
            return HashMapV([mv([v.keys[i] for v in xs]) for i in range(len(x.keys))],
                            [mv([v.vals[i] for v in xs]) for i in range(len(x.vals))])
        if isinstance(x, (CharsV, IterV)):
            if any(v.pos != x.pos or v.end != x.end for v in xs):
                raise NoMerge()
            mv([v.ref for v in xs])
            return x
        if isinstance(x, OwnIter):
            if any(v.pos != x.pos or len(v.items) != len(x.items) for v in xs):
                raise NoMerge()
            return OwnIter([mv([v.items[i] for v in xs]) for i in range(len(x.items))], x.pos)
        if isinstance(x, Ref):
            if any(v.cell.id != x.cell.id or v.path != x.path for v in xs):
                raise NoMerge()
            mcell([v.cell for v in xs])
            return x
        if isinstance(x, BoxV):
            if any(v.cell.id != x.cell.id for v in xs):
                raise NoMerge()
            mcell([v.cell for v in xs])
            return x
        if isinstance(x, PeekV):
            return PeekV(mv([v.it for v in xs]))
        if isinstance(x, AdaptV):
            if any(v.kind != x.kind or not identical(v.fn, x.fn) for v in xs):
                raise NoMerge()
            if any((v.cur is None) != (x.cur is None) for v in xs):
                raise NoMerge()
            return AdaptV(x.kind, mv([v.it for v in xs]), x.fn, mv([v.cur for v in xs]) if x.cur is not None else None)
        if isinstance(x, DiscrV):
            return x if all(v.t.eq(x.t) for v in xs) else DiscrV(ite_chain(guards, [v.t for v in xs]))
        if isinstance(x, FnItem):
            if any(v.name != x.name for v in xs):
                raise NoMerge()
            return x
        if isinstance(x, PyFn):
            if any(v.tag != x.tag for v in xs):
                raise NoMerge()
            return x
        if isinstance(x, Closure):
            if any(v.name != x.name or len(v.captures) != len(x.captures) for v in xs):
                raise NoMerge()
            return Closure(x.name, [mv([v.captures[i] for v in xs]) for i in range(len(x.captures))])
        if isinstance(x, (FmtArgs, FmtArg)):
            if all(identical_fmt(v, x) for v in xs):
                return x
            raise NoMerge()
        raise NoMerge()

    def mcell(cells):
        c0 = cells[0]
        if c0.id in seen:
            return
        seen[c0.id] = True
        if any(getattr(c, 'transparent', False) != getattr(c0, 'transparent', False) for c in cells):
            raise NoMerge()
        plan.append((c0, mv([c.val for c in cells])))

    for fi in range(len(a.frames)):
        frs = [s.frames[fi] for s in sts]
        keys = set().union(*[set(f.locals) for f in frs])
        for k in sorted(keys):
            if all(k in f.locals for f in frs):
                mcell([f.locals[k] for f in frs])
            else:
                if k not in frs[0].locals:
                    if not dry:
                        frs[0].locals[k] = a.new_cell(UNINIT)
                else:
                    plan.append((frs[0].locals[k], UNINIT))
        d0 = frs[0].dest
        for f in frs:
            if (f.dest is None) != (d0 is None):
                raise NoMerge()
            if d0 is not None and (f.dest[0].id != d0[0].id or list(f.dest[1]) != list(d0[1])):
                raise NoMerge()
        if d0 is not None:
            mcell([f.dest[0] for f in frs])
    if a.cur_args is not None:
        pass
    if dry:
        return None
    for cell, val in plan:
        cell.val = val
    a.pc = a.pc[:base] + ([] if drop_pc else [z3.simplify(z3.Or(*guards))])
    a.steps = max(s.steps for s in sts)
    a.next_cell = max(s.next_cell for s in sts)
    return a


def identical_fmt(a, b):
    if isinstance(a, FmtArg):
        return a.kind == b.kind and identical(a.ref, b.ref)
    if len(a.pieces) != len(b.pieces):
        return False
    for p, q in zip(a.pieces, b.pieces):
        if isinstance(p, str) != isinstance(q, str):
            return False
        if isinstance(p, str):
            if p != q:
                return False
        elif not identical_fmt(p[1], q[1]):
            return False
    return True


# enum types whose payload-carrying variants all have the same field shape, so that a merged
# (symbolic) variant index is meaningful
SAME_SHAPE_OK = set()


def merge_states(states, base, complete=False):
    groups = []
    for s in states:
        for g in groups:
            if compatible(g[0], s):
                try:
                    merge_group([g[0], s], base, dry=True)
                    g.append(s)
                    break
                except NoMerge:
                    pass
        else:
            groups.append([s])
    out = []
    for g in groups:
        if len(g) == 1:
            out.append(g[0])
            continue
        try:
            out.append(merge_group(g, base, drop_pc=(complete and len(groups) == 1)))
        except NoMerge:
            out.extend(g)
    return out


# ---------------------------------------------------------------- executor
class Exec(object):
    def __init__(self, prog, overflow_checks=True, step_budget=400000, merge=True, timeout_ms=60000):
        self.p = prog
        self.overflow_checks = overflow_checks
        self.solver = z3.Solver()
        self.solver.set('timeout', timeout_ms)
        self.timeout_ms = timeout_ms
        self.nq = 0
        self.tsolve = 0.0
        self.finished = []
        self.overrides = []        # list of (regex, fn(ex, st, callee, args)) consulted before models
        self.step_budget = step_budget
        self.merge = merge
        self.bodies_used = set()
        self.models_used = set()
        self.uf_cache = {}
        self.fresh = 0
        import models
        self.models = models

    # ---- solver
    def check(self, st, cond):
        t = time.time()
        self.solver.push()
        for c in st.pc:
            self.solver.add(c)
        self.solver.add(cond)
        r = self.solver.check()
        model = self.solver.model() if r == z3.sat else None
        self.solver.pop()
        self.nq += 1
        self.tsolve += time.time() - t
        if r == z3.unknown:
            # a path-feasibility query that times out (typically on a loaded machine: the solver's limit is wall-clock time) is retried once in a
            # fresh solver with five times the limit before the run is declared inconclusive
            t = time.time()
            s2 = z3.Solver()
            s2.set('timeout', int(self.timeout_ms * 5))
            for c in st.pc:
                s2.add(c)
            s2.add(cond)
            r = s2.check()
            model = s2.model() if r == z3.sat else None
            self.nq += 1
            self.tsolve += time.time() - t
            if r == z3.unknown:
                raise Unsupported('solver unknown (feasibility)')
        return model

    def feasible(self, st, cond):
        cond = z3.simplify(cond)
        if z3.is_true(cond):
            return True
        if z3.is_false(cond):
            return False
        return self.check(st, cond) is not None

    def uf(self, name, *sorts):
        k = (name,) + tuple(str(s) for s in sorts)
        if k not in self.uf_cache:
            self.uf_cache[k] = z3.Function(name, *sorts)
        return self.uf_cache[k]

    def fresh_name(self, prefix):
        self.fresh += 1
        return '%s!%d' % (prefix, self.fresh)

    # ---- branching protocol for models
    def branch(self, st, options):
        """options: [(cond, tag)]; returns the tag of the branch taken on this path (forking as needed)"""
        if st.dec_pos < len(st.decisions):
            i = st.decisions[st.dec_pos]
            st.dec_pos += 1
            return options[i][1]
        opts = [(z3.simplify(c), t) for c, t in options]
        live = [(c, t) for c, t in opts if not z3.is_false(c)]
        if len(live) == 1 and z3.is_true(live[0][0]):
            return live[0][1]
        raise NeedFork(opts)

    # ---- places
    def deref_target(self, v):
        """(cell, path) a pointer-like value points to"""
        if isinstance(v, Ref):
            return v.cell, list(v.path)
        if isinstance(v, BoxV):
            return v.cell, []
        raise Unsupported('deref of %r' % (v,))

    def resolve(self, st, fr, place):
        cell = fr.locals.get(place.local)
        if cell is None:
            cell = fr.locals[place.local] = st.new_cell(UNINIT)
        path = []
        for pj in place.proj:
            k = pj[0]
            if k == 'deref':
                v = self.load(cell, path)
                cell, path = self.deref_target(v)
            elif k == 'field':
                path.append(('field', pj[1]))
            elif k == 'downcast':
                path.append(('downcast', pj[1]))
            elif k == 'index':
                iv = fr.locals[pj[1]].val
                t = z3.simplify(iv.t) if isinstance(iv, Int) else None
                if t is not None and not z3.is_bv_value(t):
                    # an index that depends on the path (e.g. `if c { 1 } else { 2 }` after state merging): split the state per feasible value
                    raise SplitIndex(pj[1], t, iv.signed)
                path.append(('index', self.concrete_int(iv)))
            elif k == 'constindex':
                path.append(('index', pj[1]))
            elif k == 'subslice':
                # slice patterns: `[a:]`, `[:-b]`, `[a:-b]` (counted from the end) and `[a..b]`
                txt = pj[1].strip()
                m1 = re.fullmatch(r'(\d*):(?:-(\d+))?', txt)
                m2 = re.fullmatch(r'(\d+)\.\.(\d+)', txt)
                if m1:
                    path.append(('subslice', int(m1.group(1) or 0), int(m1.group(2) or 0), True))
                elif m2:
                    path.append(('subslice', int(m2.group(1)), int(m2.group(2)), False))
                else:
                    raise Unsupported('subslice projection %r' % (txt,))
            else:
                raise Unsupported('projection %r' % (pj,))
        return cell, path

    def concrete_int(self, iv):
        t = z3.simplify(iv.t)
        if z3.is_bv_value(t):
            return t.as_long()
        raise Unsupported('symbolic index/length %s' % t)

    def load(self, cell, path):
        v = cell.val
        if getattr(cell, 'transparent', False):
            path = [p for p in path if p[0] == 'index']
        for stp in path:
            k = stp[0]
            if k == 'field':
                if isinstance(v, Adt):
                    if stp[1] >= len(v.fields):
                        raise Unsupported('field %d of %r' % (stp[1], v))
                    v = v.fields[stp[1]]
                elif isinstance(v, BoxV):
                    pass
                elif isinstance(v, Closure):
                    v = v.captures[stp[1]]
                elif v is UNINIT:
                    raise Unsupported('field of UNINIT')
                else:
                    raise Unsupported('field of %r' % (v,))
            elif k == 'downcast':
                pass
            elif k == 'index':
                if isinstance(v, VecV):
                    if stp[1] >= len(v.items):
                        raise Panic('index out of bounds')
                    v = v.items[stp[1]]
                elif isinstance(v, list):
                    v = v[stp[1]]
                else:
                    raise Unsupported('index of %r' % (v,))
            elif k == 'attr':
                v = getattr(v, stp[1])
            elif k == 'subslice':
                if not isinstance(v, VecV):
                    raise Unsupported('subslice of %r' % (v,))
                n_ = len(v.items)
                a_, b_ = (stp[1], n_ - stp[2]) if stp[3] else (stp[1], stp[2])
                if a_ > b_ or b_ > n_:
                    raise Panic('subslice out of range')
                v = VecV(v.items[a_:b_])        # a view: reads see the elements; writes through it are redirected in store()
            elif k == 'mapval':
                v = v.vals[stp[1]]
            elif k == 'mapkey':
                v = v.keys[stp[1]]
        return v

    def store(self, cell, path, val):
        if getattr(cell, 'transparent', False):
            path = [p for p in path if p[0] == 'index']
        path = [p for p in path]
        while path and path[-1][0] == 'downcast':
            path.pop()
        # a write through a sub-slice view lands in the underlying vector: fold `subslice(a, ..) , index i` into `index a+i`
        j = 0
        while j < len(path) - 1:
            if path[j][0] == 'subslice' and path[j + 1][0] == 'index':
                path[j:j + 2] = [('index', path[j][1] + path[j + 1][1])]
            else:
                j += 1
        if any(p[0] == 'subslice' for p in path):
            raise Unsupported('store of a whole sub-slice')
        if not path:
            cell.val = val
            return
        parent = self.load(cell, path[:-1])
        last = path[-1]
        if last[0] == 'field':
            if isinstance(parent, Adt):
                parent.fields[last[1]] = val
            elif isinstance(parent, Closure):
                parent.captures[last[1]] = val
            else:
                raise Unsupported('store field into %r' % (parent,))
        elif last[0] == 'index':
            if isinstance(parent, list):
                parent[last[1]] = val
            else:
                parent.items[last[1]] = val
        elif last[0] == 'attr':
            setattr(parent, last[1], val)
        elif last[0] == 'mapval':
            parent.vals[last[1]] = val
        elif last[0] == 'mapkey':
            parent.keys[last[1]] = val

    def ref_chain_end(self, r):
        """follow a chain of references; return the last reference (whose target is not a reference)"""
        while True:
            v = self.load(r.cell, r.path)
            if isinstance(v, Ref):
                r = v
            else:
                return r

    def deref_all(self, v):
        while isinstance(v, (Ref, BoxV)):
            if isinstance(v, Ref):
                v = self.load(v.cell, v.path)
            else:
                v = v.cell.val
        return v

    def deref1(self, v):
        if isinstance(v, Ref):
            return self.load(v.cell, v.path)
        if isinstance(v, BoxV):
            return v.cell.val
        return v

    # ---- operands
    def operand(self, st, fr, op):
        if op.kind in ('copy', 'move'):
            cell, path = self.resolve(st, fr, op.val)
            v = self.load(cell, path)
            if v is UNINIT:
                raise Unsupported('read of UNINIT %r in %s %s' % (op.val, fr.body.sname, fr.block))
            if op.kind == 'copy':
                v = copy_value(v)
            elif not op.val.proj:
                cell.val = UNINIT
            return v
        if op.kind == 'fnitem':
            return FnItem(op.val)
        return self.const(st, fr, op.val)

    def const(self, st, fr, s):
        m = re.fullmatch(r'(-?\d+)_(i8|i16|i32|i64|i128|isize|u8|u16|u32|u64|u128|usize)', s)
        if m:
            ty = m.group(2)
            return Int(z3.BitVecVal(int(m.group(1)), INT_BITS[ty]), ty[0] == 'i')
        if s == 'true':
            return z3.BoolVal(True)
        if s == 'false':
            return z3.BoolVal(False)
        if s == '()':
            return mkunit()
        if s.startswith('"'):
            return Ref(st.new_cell(sstr(parse_str_lit(s))), [])
        if s.startswith('b"'):
            return Ref(st.new_cell(Opaque('bytes', (parse_bytes_lit(s),))), [])
        m = re.fullmatch(r"'(.*)'", s, re.S)
        if m:
            return mkchar(parse_char_lit(s))
        m = re.search(r'::promoted\[(\d+)\]$', s)
        if m:
            return self.eval_const_body(st, strip_generics(fr.body.name) + '::promoted[%s]' % m.group(1), fr)
        m = re.fullmatch(r'(-?[0-9.]+(?:e[+-]?\d+)?)f64', s, re.I)
        if m:
            return Fl(z3.FPVal(float(m.group(1)), F64))
        if s.startswith('ZeroSized: {closure@'):
            return self.closure_value(s[len('ZeroSized: '):], [])
        if s.endswith('::EMPTY_VALUE'):
            return mkunit()
        if s.endswith('SizedTypeProperties>::ALIGN') or s.endswith('SizedTypeProperties>::SIZE'):
            return usize(8)
        if s in ('core::num::<impl i64>::MIN', 'i64::MIN'):
            return i64v(-2**63)
        if s in ('core::num::<impl i64>::MAX', 'i64::MAX'):
            return i64v(2**63 - 1)
        fc = {'NAN': z3.fpNaN(F64), 'EPSILON': z3.FPVal(2.220446049250313e-16, F64), 'MAX': z3.FPVal(1.7976931348623157e308, F64), 'MIN': z3.FPVal(-1.7976931348623157e308, F64),
              'MIN_POSITIVE': z3.FPVal(2.2250738585072014e-308, F64)}
        mfc = re.fullmatch(r'(?:core::)?f64::(?:<impl f64>::)?(NAN|EPSILON|MAX|MIN|MIN_POSITIVE)', s)
        if mfc:
            return Fl(fc[mfc.group(1)])
        mbits = re.fullmatch(r'(?:core::num::<impl )?(i8|i16|i32|i64|i128|isize|u8|u16|u32|u64|u128|usize)(?:>)?::BITS', s)
        if mbits:
            return Int(z3.BitVecVal(INT_BITS[mbits.group(1)], 32), False)
        mic = re.fullmatch(r'(?:core::num::<impl )?(i64|u64|usize|i32|u32|u8)(?:>)?::(MIN|MAX)', s)
        if mic:
            ty = mic.group(1)
            bits = INT_BITS[ty]
            sg = ty[0] == 'i'
            v = ((-(1 << (bits - 1))) if mic.group(2) == 'MIN' else ((1 << (bits - 1)) - 1)) if sg else (0 if mic.group(2) == 'MIN' else (1 << bits) - 1)
            return Int(z3.BitVecVal(v, bits), sg)
        if s in ('core::f64::<impl f64>::INFINITY', 'f64::INFINITY'):
            return Fl(z3.fpPlusInfinity(F64))
        if s in ('core::f64::<impl f64>::NEG_INFINITY', 'f64::NEG_INFINITY'):
            return Fl(z3.fpMinusInfinity(F64))
        m = re.fullmatch(r'<(.*) as (.*)>::(MIN|MAX)', s)
        if m:
            tr = re.sub(r'<.*', '', m.group(2).split('::')[-1])
            selfty = 'i64' if tr == 'EvalexprInt' else 'f64' if tr == 'EvalexprFloat' else None
            if selfty:
                for im in self.p.meta.impls:
                    if im['trait'] == tr and im['for_'] == selfty:
                        b = self.p.by_impl.get((im['file'], im['line'], im['col'], m.group(3)))
                        if b:
                            return self.eval_const_body(st, b.sname, fr)
        m = re.fullmatch(r'(?:(?:std|core)::cmp::)?(?:Ordering::)?(Less|Equal|Greater)', s)
        if m:
            return Adt('Ordering', {'Less': -1, 'Equal': 0, 'Greater': 1}[m.group(1)], [])
        m = re.fullmatch(r'(?:std::result::|core::result::)?Result::<.*>::(Ok|Err)\((.*)\)', s)
        if m:
            return Adt('Result', 0 if m.group(1) == 'Ok' else 1, [self.const(st, fr, m.group(2))])
        m = re.fullmatch(r'(?:std::option::|core::option::)?Option::<.*>::(None|Some\((.*)\))', s)
        if m:
            return none() if m.group(1) == 'None' else some(self.const(st, fr, m.group(2)))
        last = s.split('::')[-1]
        sc = self.p.simple_consts.get(last)
        if sc and re.fullmatch(r'[A-Z_][A-Z_0-9]*', last):
            if len(set(sc)) != 1:
                raise Unsupported('ambiguous constant item %s' % last)
            return self.const(st, fr, sc[0])
        bs = self.p.by_name.get(strip_generics(s))
        if bs and bs[0].header.startswith('const '):
            return self.eval_const_body(st, bs[0].sname, fr)
        if re.match(r'^[A-Za-z_<]', s):
            return FnItem(s)
        raise Unsupported('const %r' % s)

    def eval_const_body(self, st, name, fr):
        bs = self.p.by_name.get(name)
        if not bs:
            raise Unsupported('const body %s' % name)
        sub = Exec(self.p, self.overflow_checks)
        s2 = State()
        s2.next_cell = st.next_cell + 100000 * (1 + len(st.frames))
        s2.frames.append(Frame(bs[0]))
        sub.run(s2)
        if len(sub.finished) != 1 or sub.finished[0].kind != 'return':
            raise Unsupported('const body %s did not evaluate to one value' % name)
        return sub.finished[0].value

    def closure_value(self, text, captures):
        m = re.match(r'\{closure@([^{}]*)\}', text)
        if not m:
            raise Unsupported('closure %r' % text)
        b = self.p.closure_bodies.get(m.group(1))
        if b is None:
            raise Unsupported('ambiguous or unknown closure %s' % m.group(1))
        return Closure(b.sname, captures)

    def subcall(self, st, body, args):
        """run `body` synchronously on `args` inside a model (the callee must be deterministic: exactly one path); cells are shared with `st`"""
        if body.errors:
            raise Unsupported('function %s contains a MIR construct the front end does not understand: %s' % (body.sname, body.errors[0][:160]))
        sub = Exec(self.p, self.overflow_checks)
        sub.overrides = self.overrides
        s2 = State()
        s2.pc = list(st.pc)
        s2.next_cell = st.next_cell
        s2.log = st.log
        s2.notes = st.notes
        s2.anchors = st.anchors
        s2.tls = st.tls
        fr = Frame(body)
        if len(args) != len(body.args):
            raise Unsupported('arity mismatch calling %s' % body.sname)
        for i, v in zip(body.args, args):
            fr.locals[i] = s2.new_cell(v)
        s2.frames.append(fr)
        outs = sub.run(s2)
        self.bodies_used |= sub.bodies_used | {body.sname}
        self.models_used |= sub.models_used
        self.nq += sub.nq
        if len(outs) != 1:
            raise Unsupported('nested call of %s inside a model has %d paths (must be deterministic)' % (body.sname, len(outs)))
        o = outs[0]
        if o.kind != 'return':
            raise Panic('panic inside %s: %s' % (body.sname, o.value))
        if o.state is not s2:
            raise Unsupported('nested call of %s inside a model forked' % body.sname)
        st.pc[:] = s2.pc
        st.next_cell = s2.next_cell
        return o.value

    # ---- running
    def run(self, st):
        self.explore(st, None)
        return self.finished

    def explore(self, st, stop):
        work = [st]
        out = []
        while work:
            s = work.pop()
            try:
                nxt = self.step(s, stop)
                if nxt == 'STOP':
                    out.append(s)
                    continue
            except Unsupported as u:
                if not getattr(u, 'located', False):
                    u.located = True
                    u.where = [(f.body.sname, f.block, f.idx) for f in s.frames][-4:]
                raise
            except Panic as p:
                self.finished.append(Outcome(s, 'panic', p.msg))
                continue
            work.extend(nxt)
        return out

    def step(self, st, stop=None):
        first = True
        while True:
            st.steps += 1
            if st.steps > self.step_budget:
                raise Unsupported('step budget exceeded')
            fr = st.frames[-1]
            if stop and not first and len(st.frames) == stop[0] and fr.block == stop[1] and fr.idx == 0:
                return 'STOP'
            first = False
            stmts, term, _ = fr.body.blocks[fr.block]
            try:
                if fr.idx < len(stmts):
                    self.stmt(st, fr, stmts[fr.idx])
                    fr.idx += 1
                    continue
                r = self.term(st, fr, term)
            except SplitIndex as sp:
                # enumerate the feasible values of the index term (all-SAT, small), fork, pin the local, and re-execute the same statement
                vals = []
                excl = []
                while len(vals) <= 16:
                    m = self.check(st, z3.And(*excl) if excl else z3.BoolVal(True))
                    if m is None:
                        break
                    v = m.eval(sp.term, model_completion=True).as_long()
                    vals.append(v)
                    excl.append(sp.term != z3.BitVecVal(v, sp.term.size()))
                if len(vals) > 16:
                    raise Unsupported('symbolic index with more than 16 feasible values: %s' % sp.term)
                outs = []
                for v in vals:
                    s2 = st.fork() if len(vals) > 1 else st
                    s2.pc.append(sp.term == z3.BitVecVal(v, sp.term.size()))
                    s2.frames[-1].locals[sp.local].val = Int(z3.BitVecVal(v, sp.term.size()), sp.signed)
                    outs.append(s2)
                return outs
            if r is not None:
                return r

    def goto(self, fr, bb):
        fr.block = bb
        fr.idx = 0

    def stmt(self, st, fr, s):
        if s.kind == 'nop' or s.kind == 'assume':
            return
        if s.kind == 'assign':
            place, rv = s.args
            v = self.rvalue(st, fr, rv)
            cell, path = self.resolve(st, fr, place)
            self.store(cell, path, v)
            return
        if s.kind == 'setdiscr':
            cell, path = self.resolve(st, fr, s.args[0])
            v = self.load(cell, path)
            if isinstance(v, Adt):
                v.variant = s.args[1]
                return
        raise Unsupported('statement %r' % (s,))

    def adt_path(self, path):
        segs = strip_generics(path).split('::')
        return segs

    def rvalue(self, st, fr, rv):
        k = rv.kind
        a = rv.args
        meta = self.p.meta
        if k == 'use':
            return self.operand(st, fr, a[0])
        if k == 'ref':
            cell, path = self.resolve(st, fr, a[1])
            return Ref(cell, path, mut=(a[0] == 'mut'))
        if k == 'discriminant':
            cell, path = self.resolve(st, fr, a[0])
            v = self.load(cell, path)
            if not isinstance(v, Adt):
                raise Unsupported('discriminant of %r' % (v,))
            var = v.variant
            if v.ty == 'Ordering':
                # #[repr(i8)]: Less = -1 is the switch target 255
                t8 = z3.BitVecVal(var, 8) if isinstance(var, int) else z3.simplify(z3.Extract(7, 0, var))
                return Int(t8, True)
            return Int(z3.BitVecVal(var, 64), True) if isinstance(var, int) else Int(var, True)
        if k in ('adt_tuple', 'adt_unit', 'adt_struct'):
            ml = re.search(r'for (?:\w+::)*(\w+)<.*>>::\w+::(__\w+)::(\w+)$', a[0]) if '::__' in a[0] else None
            if ml is None and a[0].startswith('__') and getattr(self.p, 'local_enums', None):
                # a local enum whose name is unique in the crate is printed without its path
                mu = re.fullmatch(r'(__\w+)::(\w+)', a[0])
                owners = [k for k in self.p.local_enums if mu and k[1] == mu.group(1)]
                if mu and len(owners) == 1:
                    names = self.p.local_enums[owners[0]]
                    if mu.group(2) not in names:
                        raise Unsupported('variant %s of local enum %s' % (mu.group(2), mu.group(1)))
                    return Adt('%s@%s' % (mu.group(1), owners[0][0]), names.index(mu.group(2)), [self.operand(st, fr, o) for o in (a[1] if k == 'adt_tuple' else [])])
            if ml and (ml.group(1), ml.group(2)) in getattr(self.p, 'local_enums', {}):
                names = self.p.local_enums[(ml.group(1), ml.group(2))]
                if ml.group(3) not in names:
                    raise Unsupported('variant %s of local enum %s' % (ml.group(3), ml.group(2)))
                return Adt('%s@%s' % (ml.group(2), ml.group(1)), names.index(ml.group(3)), [self.operand(st, fr, o) for o in (a[1] if k == 'adt_tuple' else [])])
            segs = self.adt_path(a[0])
            if k == 'adt_struct':
                ty = segs[-1]
                if ty in meta.structs and not (len(segs) >= 2 and segs[-2] in meta.enums):
                    names = meta.structs[ty]
                    vals = dict((n, self.operand(st, fr, o)) for n, o in a[1])
                    return Adt(ty, 0, [vals[n] for n in names])
                if len(segs) >= 2 and segs[-2] in meta.enums:
                    ty, var = segs[-2], segs[-1]
                    vi = meta.variant_index(ty, var)
                    names = meta.enums[ty][vi][1]
                    vals = dict((n, self.operand(st, fr, o)) for n, o in a[1])
                    return Adt(ty, vi, [vals[n] for n in names])
                if ty in ('RangeInclusive',):
                    vals = dict((n, self.operand(st, fr, o)) for n, o in a[1])
                    return Adt('RangeInclusive', 0, [vals['start'], vals['end'], vals.get('exhausted', z3.BoolVal(False))])
                if ty in ('Range', 'RangeFrom', 'RangeTo'):
                    return Adt(ty, 0, [self.operand(st, fr, o) for n, o in a[1]])
                raise Unsupported('struct aggregate %s' % a[0])
            if segs[-1] in ('Less', 'Equal', 'Greater') and (len(segs) == 1 or segs[-2] == 'Ordering'):
                return Adt('Ordering', {'Less': -1, 'Equal': 0, 'Greater': 1}[segs[-1]], [])
            args = [self.operand(st, fr, o) for o in (a[1] if k == 'adt_tuple' else [])]
            ty, var = (segs[-2], segs[-1]) if len(segs) >= 2 else (segs[-1], None)
            if ty == 'Option':
                return Adt('Option', {'None': 0, 'Some': 1}[var], args)
            if ty == 'Result':
                return Adt('Result', {'Ok': 0, 'Err': 1}[var], args)
            if ty == 'ControlFlow':
                return Adt('ControlFlow', {'Continue': 0, 'Break': 1}[var], args)
            if ty in meta.enums:
                return Adt(ty, meta.variant_index(ty, var), args)
            if segs[-1] in meta.structs:
                return Adt(segs[-1], 0, args)
            if segs[-1] == 'PhantomData':
                return mkunit()
            raise Unsupported('aggregate %s' % a[0])
        if k == 'tuple':
            return Adt('tuple', 0, [self.operand(st, fr, o) for o in a])
        if k == 'array':
            return VecV([self.operand(st, fr, o) for o in a])
        if k == 'closure':
            text = a[0]
            m = re.match(r'(\{closure@[^{}]*\})(?: \{ (.*) \})?$', text)
            caps = []
            if m and m.group(2):
                from mirparse import split_top, parse_operand
                for f in split_top(m.group(2)):
                    caps.append(self.operand(st, fr, parse_operand(f.split(': ', 1)[1])))
            return self.closure_value(m.group(1) if m else text, caps)
        if k == 'binop':
            op, x, y = a[0], self.operand(st, fr, a[1]), self.operand(st, fr, a[2])
            return self.binop(op, x, y)
        if k == 'unop':
            op, x = a[0], self.operand(st, fr, a[1])
            if op == 'PtrMetadata':
                v = self.deref_all(x)
                if isinstance(v, VecV):
                    return usize(len(v.items))
                if isinstance(v, SStr):
                    return Int(self.models.str_byte_len(v), False)
                raise Unsupported('PtrMetadata of %r' % (v,))
            if op == 'Not':
                return z3.Not(x) if z3.is_bool(x) else Int(~x.t, x.signed)
            if op == 'Neg':
                if isinstance(x, Fl):
                    return Fl(z3.fpNeg(x.t))
                return Int(-x.t, x.signed)
            raise Unsupported('unop %s' % op)
        if k == 'len':
            cell, path = self.resolve(st, fr, a[0])
            v = self.load(cell, path)
            if isinstance(v, VecV):
                return usize(len(v.items))
            raise Unsupported('Len of %r' % (v,))
        if k == 'cast':
            v = self.operand(st, fr, a[0])
            return self.cast(st, v, a[1].strip(), a[2])
        if k == 'nullop':
            if a[0] in ('UbChecks', 'ContractChecks'):
                return z3.BoolVal(False)
            raise Unsupported('nullop %s' % (a,))
        raise Unsupported('rvalue %s' % k)

    def cast(self, st, v, ty, kind):
        kk = kind.split('(')[0]
        if kk in ('PointerCoercion', 'PtrToPtr', 'Subtype', 'FnPtrToPtr'):
            return v
        if kk == 'Transmute':
            if ty in INT_BITS and not isinstance(v, Int):
                return Int(z3.BitVecVal(8, INT_BITS[ty]), False)      # address of a live allocation: non-null, aligned
            return v
        if kk == 'IntToInt':
            if z3.is_expr(v) and z3.is_bool(v):
                v = Int(z3.If(v, bv(1, 8), bv(0, 8)), False)
            if isinstance(v, DiscrV):
                v = Int(v.t, True)
            bits = INT_BITS.get(ty)
            if bits is None:
                raise Unsupported('IntToInt to %s' % ty)
            t = v.t
            if bits < t.size():
                t = z3.Extract(bits - 1, 0, t)
            elif bits > t.size():
                t = z3.SignExt(bits - t.size(), t) if v.signed else z3.ZeroExt(bits - t.size(), t)
            return Int(t, ty[0] == 'i')
        if kk == 'IntToFloat':
            if ty != 'f64':
                raise Unsupported('IntToFloat to %s' % ty)
            return Fl(z3.fpSignedToFP(RNE, v.t, F64) if v.signed else z3.fpUnsignedToFP(RNE, v.t, F64))
        if kk == 'FloatToInt':
            return Int(self.models.float_to_int_sat(v.t, INT_BITS[ty], ty[0] == 'i'), ty[0] == 'i')
        if kk == 'FloatToFloat' and ty == 'f64':
            return v
        raise Unsupported('cast %s to %s' % (kind, ty))

    def binop(self, op, x, y):
        if isinstance(x, DiscrV):
            x = Int(x.t, True)
        if isinstance(y, DiscrV):
            y = Int(y.t, True)
        if isinstance(x, Int):
            s = x.signed
            if op in ('Shl', 'Shr', 'ShlUnchecked', 'ShrUnchecked'):
                n = x.t.size()
                sh = y.t
                if sh.size() > n:
                    sh = z3.Extract(n - 1, 0, sh)
                elif sh.size() < n:
                    sh = z3.ZeroExt(n - sh.size(), sh)
                sh = sh & (n - 1)
                if op.startswith('Shl'):
                    return Int(x.t << sh, s)
                return Int((x.t >> sh) if s else z3.LShR(x.t, sh), s)
            if x.t.size() != y.t.size():
                raise Unsupported('binop %s width mismatch' % op)
            if op == 'Eq':
                return x.t == y.t
            if op == 'Ne':
                return x.t != y.t
            if op == 'Lt':
                return (x.t < y.t) if s else z3.ULT(x.t, y.t)
            if op == 'Le':
                return (x.t <= y.t) if s else z3.ULE(x.t, y.t)
            if op == 'Gt':
                return (x.t > y.t) if s else z3.UGT(x.t, y.t)
            if op == 'Ge':
                return (x.t >= y.t) if s else z3.UGE(x.t, y.t)
            if op in ('Add', 'AddUnchecked'):
                return Int(x.t + y.t, s)
            if op in ('Sub', 'SubUnchecked'):
                return Int(x.t - y.t, s)
            if op in ('Mul', 'MulUnchecked'):
                return Int(x.t * y.t, s)
            if op == 'BitAnd':
                return Int(x.t & y.t, s)
            if op == 'BitOr':
                return Int(x.t | y.t, s)
            if op == 'BitXor':
                return Int(x.t ^ y.t, s)
            if op in ('AddWithOverflow', 'SubWithOverflow', 'MulWithOverflow'):
                n = x.t.size()

                def widened(t):
                    return z3.is_app(t) and t.decl().kind() in (z3.Z3_OP_SIGN_EXT, z3.Z3_OP_ZERO_EXT) and t.arg(0).size() * 2 <= n
                if n >= 128 and widened(x.t) and widened(y.t):
                    # both operands were widened from at most half the width: the operation cannot overflow, and the double-width product a bit-blasting
                    # solver chokes on is not needed
                    f0 = {'Add': lambda p, q: p + q, 'Sub': lambda p, q: p - q, 'Mul': lambda p, q: p * q}[op[:3]]
                    return Adt('tuple', 0, [Int(f0(x.t, y.t), s), z3.BoolVal(False)])
                ext = (lambda t: z3.SignExt(n, t)) if s else (lambda t: z3.ZeroExt(n, t))
                f = {'Add': lambda p, q: p + q, 'Sub': lambda p, q: p - q, 'Mul': lambda p, q: p * q}[op[:3]]
                wide = f(ext(x.t), ext(y.t))
                res = z3.Extract(n - 1, 0, wide)
                ovf = ext(res) != wide
                return Adt('tuple', 0, [Int(res, s), ovf])
            if op == 'Div':
                return Int((x.t / y.t) if s else z3.UDiv(x.t, y.t), s)
            if op == 'Rem':
                return Int(z3.SRem(x.t, y.t) if s else z3.URem(x.t, y.t), s)
            if op == 'Cmp':
                lt = (x.t < y.t) if s else z3.ULT(x.t, y.t)
                return Adt('Ordering', z3.If(lt, bv(-1, 64), z3.If(x.t == y.t, bv(0, 64), bv(1, 64))), [])
        if isinstance(x, Fl):
            a, b = x.t, y.t
            if op == 'Add':
                return Fl(z3.fpAdd(RNE, a, b))
            if op == 'Sub':
                return Fl(z3.fpSub(RNE, a, b))
            if op == 'Mul':
                return Fl(z3.fpMul(RNE, a, b))
            if op == 'Div':
                return Fl(z3.fpDiv(RNE, a, b))
            if op == 'Rem':
                return Fl(self.models.fmod(self, a, b))
            if op == 'Eq':
                return z3.fpEQ(a, b)
            if op == 'Ne':
                return z3.Not(z3.fpEQ(a, b))
            if op == 'Lt':
                return z3.fpLT(a, b)
            if op == 'Le':
                return z3.fpLEQ(a, b)
            if op == 'Gt':
                return z3.fpGT(a, b)
            if op == 'Ge':
                return z3.fpGEQ(a, b)
        if z3.is_expr(x) and z3.is_bool(x):
            if op == 'Eq':
                return x == y
            if op == 'Ne':
                return x != y
            if op == 'BitAnd':
                return z3.And(x, y)
            if op == 'BitOr':
                return z3.Or(x, y)
            if op == 'BitXor':
                return z3.Xor(x, y)
        raise Unsupported('binop %s on %r' % (op, x))

    # ---- terminators
    def finish_return(self, st, fr):
        ret = fr.locals[0].val if 0 in fr.locals else mkunit()
        if ret is UNINIT:
            ret = mkunit()
        st.frames.pop()
        if not st.frames:
            self.finished.append(Outcome(st, 'return', ret))
            return []
        caller = st.frames[-1]
        cell, path = fr.dest
        if fr.negate:
            ret = z3.Not(ret)
        self.store(cell, path, ret)
        self.goto(caller, fr.ret_block)
        return None

    def term(self, st, fr, t):
        k = t.kind
        a = t.args
        if k == 'goto':
            self.goto(fr, a[0])
            return None
        if k == 'return':
            return self.finish_return(st, fr)
        if k == 'drop':
            self.goto(fr, a[1]['return'])
            return None
        if k == 'unreachable':
            raise Panic('unreachable terminator in %s %s' % (fr.body.sname, fr.block))
        if k == 'assert':
            neg, cond, msg, targets = a
            if 'misaligned pointer dereference' in msg or 'null pointer dereference' in msg:
                self.goto(fr, targets['success'])
                return None
            c = self.operand(st, fr, cond)
            okc = z3.simplify(z3.Not(c) if neg else c)
            if z3.is_true(okc):
                self.goto(fr, targets['success'])
                return None
            out = []
            if self.feasible(st, z3.Not(okc)):
                s2 = st.fork()
                s2.pc.append(z3.Not(okc))
                self.finished.append(Outcome(s2, 'panic', 'assert failed: %s in %s' % (msg, fr.body.sname)))
            if self.feasible(st, okc):
                st.pc.append(okc)
                self.goto(fr, targets['success'])
                return None
            return []
        if k == 'switch':
            return self.switch(st, fr, a)
        if k == 'call':
            return self.call(st, fr, a)
        if k == 'resume' or k == 'terminate':
            raise Unsupported('reached unwind terminator %s' % k)
        raise Unsupported('terminator %s' % k)

    def switch(self, st, fr, a):
        v = self.operand(st, fr, a[0])
        arms = a[1]
        if z3.is_expr(v) and z3.is_bool(v):
            v = Int(z3.If(v, z3.BitVecVal(1, 8), z3.BitVecVal(0, 8)), False)
        if isinstance(v, DiscrV):
            v = Int(v.t, True)
        tv = z3.simplify(v.t)
        if z3.is_bv_value(tv):
            val = tv.as_long()
            mod = 1 << tv.size()
            for key, bb in arms:
                if key != 'otherwise' and int(key) % mod == val:        # targets are printed as the unsigned bit pattern or as a signed literal
                    self.goto(fr, bb)
                    return None
            self.goto(fr, dict(arms)['otherwise'])
            return None
        # symbolic: enumerate the feasible arms by all-SAT over the scrutinee (cheaper than one query per arm)
        keyvals = {}
        otherwise = None
        for key, bb in arms:
            if key == 'otherwise':
                otherwise = bb
            else:
                keyvals[int(key) % (1 << tv.size())] = bb
        by_target = {}
        order = []
        excl = []
        other_found = False
        while True:
            cond = z3.And(*excl) if excl else z3.BoolVal(True)
            m = self.check(st, cond)
            if m is None:
                break
            val = m.eval(tv, model_completion=True).as_long()
            if val in keyvals:
                bb = keyvals[val]
                c = (tv == z3.BitVecVal(val, tv.size()))
                excl.append(tv != z3.BitVecVal(val, tv.size()))
            else:
                if otherwise is None:
                    raise Unsupported('switch value outside arms')
                bb = otherwise
                c = z3.And(*[tv != z3.BitVecVal(kv, tv.size()) for kv in keyvals]) if keyvals else z3.BoolVal(True)
                excl.append(z3.Or(*[tv == z3.BitVecVal(kv, tv.size()) for kv in keyvals]) if keyvals else z3.BoolVal(False))
                other_found = True
            if bb not in by_target:
                by_target[bb] = []
                order.append(bb)
            by_target[bb].append(c)
            if len(excl) > 300:
                raise Unsupported('switch with too many feasible values')
        if not by_target:
            return []
        if len(by_target) == 1:
            self.goto(fr, order[0])
            return None
        succ = []
        for bb in order:
            conds = by_target[bb]
            s2 = st.fork()
            s2.pc.append(z3.Or(*conds) if len(conds) > 1 else conds[0])
            self.goto(s2.frames[-1], bb)
            succ.append(s2)
        if not self.merge:
            return succ
        J = self.p.common_pdom(fr.body, [s2.frames[-1].block for s2 in succ])
        depth = len(st.frames)
        if J is None or J == 'EXIT':
            if depth < 2 or fr.ret_block is None:
                return succ
            depth -= 1
            J = fr.ret_block
        reached = []
        nfin = len(self.finished)
        for ch in succ:
            reached.extend(self.explore(ch, (depth, J)))
        complete = (len(reached) == len(succ) and len(self.finished) == nfin)
        res = merge_states(reached, len(st.pc), complete=complete)
        if DEBUG:
            print('  merge at %s %s -> %s: %d children, %d reached, %d after merge' % (fr.body.sname[-40:], fr.block, J, len(succ), len(reached), len(res)))
        return res

    # ---- calls
    def call(self, st, fr, a):
        dest, callee, argops, targets = a
        if callee.startswith(('move ', 'copy ')):
            from mirparse import parse_operand
            fv = self.operand(st, fr, parse_operand(callee))
            args = [fv] + [self.operand(st, fr, o) for o in argops]
            c = '__call_value'
        else:
            args = [self.operand(st, fr, o) for o in argops]
            c = strip_generics(callee)
        st.cur_args = args
        st.cur_raw = callee
        return self.invoke(st, c, [], False)

    def invoke(self, st, c, decisions, negate):
        fr = st.frames[-1]
        stmts, term, _ = fr.body.blocks[fr.block]
        dest, _callee, _argops, targets = term.args
        retbb = targets.get('return')
        args = st.cur_args
        st.decisions = decisions
        st.dec_pos = 0
        try:
            r = self.dispatch(st, c, args)
        except NeedFork as nf:
            live = []
            for i, (cond, tag) in enumerate(nf.options):
                if self.feasible(st, cond):
                    live.append((i, cond))
            if not live:
                return []
            if len(live) == 1:
                i, cond = live[0]
                if not z3.is_true(cond):
                    st.pc.append(cond)
                return self.invoke(st, c, decisions + [i], negate)
            out = []
            for i, cond in live:
                s2 = st.fork()
                s2.pc.append(cond)
                try:
                    r2 = self.invoke(s2, c, decisions + [i], negate)
                except Panic as p:
                    self.finished.append(Outcome(s2, 'panic', p.msg))
                    continue
                out.extend([s2] if r2 is None else r2)
            return out
        if isinstance(r, Tail):
            st.cur_args = r.args
            return self.invoke(st, r.callee, [], negate != r.negate)
        if isinstance(r, tuple) and r and r[0] == 'BODY':
            body, bargs = r[1], r[2]
            if body.errors:
                raise Unsupported('function %s contains a MIR construct the front end does not understand: %s' % (body.sname, body.errors[0][:160]))
            self.bodies_used.add(body.sname)
            nf = Frame(body)
            if len(body.args) != len(bargs):
                raise Unsupported('arity mismatch calling %s' % body.sname)
            for i, v in zip(body.args, bargs):
                nf.locals[i] = st.new_cell(v)
            dcell, dpath = self.resolve(st, fr, dest)
            nf.dest = (dcell, dpath)
            nf.ret_block = retbb
            nf.negate = negate
            st.frames.append(nf)
            st.cur_args = None
            return None
        if negate:
            r = z3.Not(r)
        if retbb is None:
            raise Panic('diverging call %s returned' % c)
        dcell, dpath = self.resolve(st, fr, dest)
        self.store(dcell, dpath, r)
        self.goto(fr, retbb)
        st.cur_args = None
        return None

    def dispatch(self, st, c, args):
        for rx, fn in self.overrides:
            if rx.fullmatch(c):
                r = fn(self, st, c, args)
                if r is not NOTFOUND:
                    return r
        raw = getattr(st, 'cur_raw', None)
        r = NOTFOUND
        if raw and 'parse::<' in raw:
            r = self.models.model_raw(self, st, raw, args)
        if r is NOTFOUND:
            r = self.models.model(self, st, c, args)
        if r is not NOTFOUND:
            self.models_used.add(re.sub(r'<.*>', '<..>', c)[:80])
            return r
        body = self.resolve_callee(c, args)
        if body is None:
            raise Unsupported('call to %s (no model, no body)' % c)
        return ('BODY', body, args)

    def runtime_type(self, v):
        v = self.deref_all(v)
        if isinstance(v, Adt):
            return v.ty
        if isinstance(v, Int):
            if v.t.size() == 64:
                return 'i64' if v.signed else 'usize'
            return None
        if isinstance(v, Fl):
            return 'f64'
        if isinstance(v, SStr):
            return 'String'
        if isinstance(v, Closure):
            return 'closure'
        return None

    def resolve_callee(self, c, args):
        p = self.p
        m = re.fullmatch(r'<(.*) as ([^<>]*(?:<.*>)?)>::(\w+)', c)
        if m:
            self_ty, trait, method = m.group(1), m.group(2), m.group(3)
            trait = re.sub(r'<.*', '', trait).split('::')[-1]
            st_ = self_ty
            while st_.startswith('&'):
                st_ = st_[1:].lstrip()
                if st_.startswith('mut '):
                    st_ = st_[4:]
            base = re.sub(r'<.*', '', st_).split('::')[-1] if not st_.startswith('<') else None
            cands = []
            if base and base not in ('C', 'Self', 'T', 'F', 'NumericTypes'):
                cands.append(base)
                # type aliases of the crate under which rustdoc lists an impl
                cands += {'Vec': ['TupleType'], 'f64': ['FloatType'], 'i64': ['IntType']}.get(base, [])
            if st_ == '()':
                cands.append('()')
            if trait in ('EvalexprNumericTypes',):
                cands.append('DefaultNumericTypes')
            if trait == 'EvalexprInt':
                cands.append('i64')
            if trait == 'EvalexprFloat':
                cands.append('f64')
            if args:
                rt = self.runtime_type(args[0])
                if rt:
                    cands.append(rt)
            for ty in cands:
                b = p.find_method(trait, ty, method)
                if b:
                    return b
            b = p.trait_default(trait, method)
            if b:
                return b
            return None
        m = re.fullmatch(r'(?:.*::)?<impl (\w+)(?:<.*>)?>::(\w+)', c)
        if m:
            b = p.find_inherent(m.group(1), m.group(2))
            if b:
                return b
        segs = c.split('::')
        if len(segs) >= 2:
            ty = re.sub(r'<.*', '', segs[-2])
            b = p.find_inherent(ty, segs[-1])
            if b:
                return b
        return p.find_free(c)


# ---------------------------------------------------------------- literal helpers
def parse_str_lit(s):
    assert s.startswith('"') and s.endswith('"'), s
    body = s[1:-1]
    out = []
    i = 0
    while i < len(body):
        ch = body[i]
        if ch == '\\':
            n = body[i + 1]
            if n == 'n': out.append('\n'); i += 2
            elif n == 't': out.append('\t'); i += 2
            elif n == 'r': out.append('\r'); i += 2
            elif n == '0': out.append('\0'); i += 2
            elif n == '\\': out.append('\\'); i += 2
            elif n == '"': out.append('"'); i += 2
            elif n == "'": out.append("'"); i += 2
            elif n == 'u':
                j = body.index('}', i)
                out.append(chr(int(body[i + 3:j], 16))); i = j + 1
            elif n == 'x':
                out.append(chr(int(body[i + 2:i + 4], 16))); i += 4
            else:
                raise Unsupported('string escape in %r' % s)
        else:
            out.append(ch); i += 1
    return ''.join(out)


def parse_char_lit(s):
    return parse_str_lit('"' + s[1:-1].replace('"', '\\"') + '"') if s != "'\"'" else '"'


def parse_bytes_lit(s):
    body = s[2:-1]
    out = bytearray()
    i = 0
    while i < len(body):
        ch = body[i]
        if ch == '\\':
            n = body[i + 1]
            if n == 'x':
                out.append(int(body[i + 2:i + 4], 16)); i += 4
            elif n == 'n': out.append(10); i += 2
            elif n == 't': out.append(9); i += 2
            elif n == 'r': out.append(13); i += 2
            elif n == '0': out.append(0); i += 2
            elif n in '\\"\'': out.append(ord(n)); i += 2
            else:
                raise Unsupported('byte escape in %r' % s)
        else:
            out.extend(ch.encode()); i += 1
    return bytes(out)
