"""Native replay: build /verif/runner against /repo's working tree (dev + release) and run cases through it."""
import os, subprocess, sys, struct, tempfile, json, time
from frontend import VERIF, WORK, REPO, src_hash

RUNNER_DIR = os.path.join(VERIF, 'runner')
TARGET = os.path.join(WORK, 'runner-target')
_built = {}


def runner_dir():
    """the runner crate depends on /repo by path; for an alternate VERIF_REPO (scratch experiments only) a patched copy is used"""
    if os.path.realpath(REPO) == '/repo':
        return RUNNER_DIR
    import shutil
    d = os.path.join(WORK, 'runner-src')
    os.makedirs(os.path.join(d, 'src'), exist_ok=True)
    toml = open(os.path.join(RUNNER_DIR, 'Cargo.toml')).read().replace('path = "/repo"', 'path = "%s"' % os.path.realpath(REPO))
    if not os.path.exists(os.path.join(d, 'Cargo.toml')) or open(os.path.join(d, 'Cargo.toml')).read() != toml:
        open(os.path.join(d, 'Cargo.toml'), 'w').write(toml)
    shutil.copy(os.path.join(RUNNER_DIR, 'src', 'main.rs'), os.path.join(d, 'src', 'main.rs'))
    if os.path.exists(os.path.join(RUNNER_DIR, 'Cargo.lock')):
        shutil.copy(os.path.join(RUNNER_DIR, 'Cargo.lock'), os.path.join(d, 'Cargo.lock'))
    return d


def build(profile='dev'):
    key = (profile, src_hash())
    if key in _built:
        return _built[key]
    RUNNER = runner_dir()
    env = dict(os.environ)
    env.update(RUSTUP_TOOLCHAIN='1.81.0', CARGO_NET_OFFLINE='true', CARGO_TARGET_DIR=TARGET)
    cmd = ['cargo', 'build', '--offline', '--quiet'] + (['--release'] if profile == 'release' else [])
    r = subprocess.run(cmd, cwd=RUNNER, env=env, capture_output=True, text=True)
    if r.returncode != 0:
        sys.stderr.write('runner build failed (%s):\n%s\n' % (profile, r.stderr[-3000:]))
        raise SystemExit(2)
    path = os.path.join(TARGET, 'release' if profile == 'release' else 'debug', 'verif-runner')
    _built[key] = path
    return path


def hx(s):
    b = s.encode('utf-8')
    return b.hex() if b else '-'


def unhx(s):
    return '' if s == '-' else bytes.fromhex(s).decode('utf-8', 'replace')


def enc_value(v):
    """python canonical value (as produced by harness.render_value) -> runner encoding"""
    k = v[0]
    if k == 'Int':
        return 'I:%d' % v[1]
    if k == 'Float':
        bits = v[1]
        if bits == 'nan':
            bits = 0x7ff8000000000000
        if isinstance(bits, float):
            bits = struct.unpack('<Q', struct.pack('<d', bits))[0]
        return 'F:%016x' % bits
    if k == 'Boolean':
        return 'B:%d' % (1 if v[1] else 0)
    if k == 'String':
        return 'S:' + hx(v[1])
    if k == 'Tuple':
        return 'T(' + ','.join(enc_value(x) for x in v[1]) + ')'
    if k == 'Empty':
        return 'E'
    raise ValueError(v)


def dec_value(s):
    v, rest = _dec(s)
    assert rest == '', rest
    return v


def _dec(s):
    if s.startswith('T('):
        items = []
        rest = s[2:]
        while True:
            if rest.startswith(')'):
                return ('Tuple', items), rest[1:]
            v, rest = _dec(rest)
            items.append(v)
            if rest.startswith(','):
                rest = rest[1:]
    end = len(s)
    for i, ch in enumerate(s):
        if ch in ',)':
            end = i
            break
    tok, rest = s[:end], s[end:]
    if tok == 'E':
        return ('Empty',), rest
    if tok.startswith('I:'):
        return ('Int', int(tok[2:])), rest
    if tok.startswith('F:'):
        bits = int(tok[2:], 16)
        exp = (bits >> 52) & 0x7ff
        if exp == 0x7ff and bits & ((1 << 52) - 1):
            return ('Float', 'nan'), rest
        return ('Float', bits), rest
    if tok.startswith('B:'):
        return ('Boolean', tok[2:] == '1'), rest
    if tok.startswith('S:'):
        return ('String', unhx(tok[2:])), rest
    raise ValueError(tok)


def case_text(cid, entry, expr='', ctx='hashmap', vars=(), funcs=(), disabled=False, ops=()):
    lines = ['case %s' % cid, 'entry %s' % entry, 'expr %s' % hx(expr), 'ctx %s' % ctx]
    for n, v in vars:
        lines.append('var %s %s' % (hx(n), enc_value(v)))
    for n, b in funcs:
        lines.append('func %s %s' % (hx(n), b))
    lines.append('disabled %d' % (1 if disabled else 0))
    for op in ops:
        lines.append('op %s' % op)
    lines.append('end')
    return '\n'.join(lines) + '\n'


def parse_output(text):
    res = {}
    cur = None
    for line in text.split('\n'):
        if not line:
            continue
        k, _, v = line.partition(' ')
        if k == 'case':
            cur = dict(id=v, lines=[], vars={}, log=[], ops=[])
            res[v] = cur
        elif cur is None:
            continue
        elif k == 'end':
            cur = None
        else:
            cur['lines'].append(line)
            if k == 'panic':
                cur['panic'] = unhx(v)
            elif k in ('result', 'build'):
                parts = v.split(' ')
                if parts[0] == 'ok':
                    cur[k] = ('Ok', dec_value(parts[1]))
                else:
                    cur[k] = ('Err', parts[1], None if parts[2] == '-' else dec_value(parts[2]), unhx(parts[3]) if len(parts) > 3 else '')
            elif k == 'op':
                cur['ops'].append(v)
            elif k == 'var':
                n, val = v.split(' ')
                cur['vars'][unhx(n)] = dec_value(val)
            elif k == 'log':
                n, val = v.split(' ')
                cur['log'].append((unhx(n), dec_value(val)))
            elif k in ('tree', 'treedisplay'):
                cur[k] = unhx(v)
            elif k == 'shape':
                cur['shape'] = v
            elif k.startswith('iter_'):
                cur[k] = [unhx(x) for x in v.split(',')] if v else []
            elif k == 'names':
                cur['names'] = [unhx(x) for x in v.split(',')] if v else []
            elif k == 'disabled':
                cur['disabled'] = v == '1'
    return res


def run_cases(text, profile='dev', timeout=120):
    exe = build(profile)
    r = subprocess.run([exe], input=text, capture_output=True, text=True, timeout=timeout)
    return parse_output(r.stdout)


def run_both(text):
    return run_cases(text, 'dev'), run_cases(text, 'release')


if __name__ == '__main__':
    t = ''
    for i, e in enumerate(sys.argv[1:]):
        t += case_text('c%d' % i, 'eval', e)
        t += case_text('b%d' % i, 'build', e)
    for prof in ('dev', 'release'):
        out = run_cases(t, prof)
        for k, v in out.items():
            print(prof, k, {x: v[x] for x in v if x not in ('lines',)})
