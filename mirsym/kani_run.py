"""Engine K: run the Kani harness crate (/verif/kani, path dependency on /repo) and summarise the verdicts."""
import os, re, subprocess, time, shutil
import frontend

KANI_DIR = os.path.join(frontend.VERIF, 'kani')


def start(jobs=6, timeout_s=1500, harnesses=None, tag='all'):
    """start `cargo kani` in the background; returns a handle for join(). Only for the real /repo (the crate depends on it by path)."""
    if os.path.realpath(frontend.REPO) != '/repo' or os.environ.get('VERIF_NO_KANI'):
        return None
    env = dict(os.environ, CARGO_NET_OFFLINE='true')
    env.pop('RUSTUP_TOOLCHAIN', None)
    log = os.path.join(frontend.WORK, 'kani-%d.log' % os.getpid())
    os.makedirs(frontend.WORK, exist_ok=True)
    f = open(log, 'w')
    cmd = ['timeout', str(timeout_s), 'cargo', 'kani', '--target-dir', os.path.join(frontend.WORK, 'kani-target-' + tag), '-j', str(jobs), '--output-format', 'terse']
    for hn in (harnesses or []):
        cmd += ['--harness', hn]
    p = subprocess.Popen(cmd, cwd=KANI_DIR, env=env, stdout=f, stderr=subprocess.STDOUT)
    return dict(proc=p, log=log, file=f, t0=time.time(), cmd=' '.join(cmd))


def join(h):
    if h is None:
        return dict(ran=False, reason='Kani runs only against /repo itself')
    rc = h['proc'].wait()
    h['file'].close()
    text = open(h['log']).read()
    os.unlink(h['log'])
    names = re.findall(r'Checking harness ([\w:]+)\.\.\.', text)
    verdicts = re.findall(r'VERIFICATION:- (SUCCESSFUL|FAILED)', text)
    m = re.search(r'Complete - (\d+) successfully verified harnesses, (\d+) failures, (\d+) total', text)
    failed = re.findall(r'Failed Checks: (.*)', text)
    unsat_cover = re.findall(r'\*\* (\d+) of (\d+) cover properties satisfied', text)
    vac = [c for c in unsat_cover if c[0] != c[1]]
    res = dict(ran=True, cmd=h['cmd'], exit=rc, seconds=round(time.time() - h['t0'], 1), harnesses=sorted(set(n.split('::')[-1] for n in names)),
               verified=int(m.group(1)) if m else None, failed=int(m.group(2)) if m else None, total=int(m.group(3)) if m else None,
               failed_checks=failed[:10], vacuous_cover=len(vac), tool='kani 0.68 / CBMC 6.11 (cadical)', overflow_checks='on (the profile Kani models)')
    res['ok'] = bool(m) and res['failed'] == 0 and res['verified'] == res['total'] and res['total'] >= 1 and not vac and rc == 0
    return res


if __name__ == '__main__':
    print(join(start()))
