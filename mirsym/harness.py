"""Helpers shared by the per-property checks: building symbolic inputs, running a crate function,
rendering results."""
import re, time, struct
import z3
from values import *
from engine import Exec, State, Frame, Outcome
import models

VALUE_VARIANTS = ['String', 'Float', 'Int', 'Boolean', 'Tuple', 'Empty']


class Ctx(object):
    """one check's view of the program: builders + runner"""

    def __init__(self, prog, overflow_checks=True, **kw):
        self.p = prog
        self.meta = prog.meta
        self.overflow_checks = overflow_checks
        self.exec_kw = kw
        self.stats = dict(paths=0, feas_queries=0, solver_s=0.0, exec_s=0.0, runs=0)
        self.bodies_used = set()
        self.models_used = set()

    def VI(self, enum, variant):
        return self.meta.variant_index(enum, variant)

    # ---- values
    def v_int(self, t):
        return Adt('Value', self.VI('Value', 'Int'), [Int(t if z3.is_expr(t) else z3.BitVecVal(t, 64), True)])

    def v_float(self, t):
        if isinstance(t, float):
            t = models.fp_from_py(t)
        return Adt('Value', self.VI('Value', 'Float'), [Fl(t)])

    def v_bool(self, t):
        return Adt('Value', self.VI('Value', 'Boolean'), [t if z3.is_expr(t) else z3.BoolVal(t)])

    def v_str(self, s):
        return Adt('Value', self.VI('Value', 'String'), [s if isinstance(s, SStr) else sstr(s)])

    def v_tuple(self, items):
        return Adt('Value', self.VI('Value', 'Tuple'), [VecV(items)])

    def v_empty(self):
        return Adt('Value', self.VI('Value', 'Empty'), [])

    def operator(self, name, *fields):
        return Adt('Operator', self.VI('Operator', name), list(fields))

    def token(self, name, *fields):
        return Adt('Token', self.VI('Token', name), list(fields))

    def node(self, op, children=()):
        return Adt('Node', 0, [op, VecV(list(children))])

    def hashmap_context(self, variables=(), functions=(), disabled=False):
        """variables: [(name, value Adt)], functions: [(name, function value)]"""
        names = self.meta.structs['HashMapContext']
        vals = {'variables': HashMapV([sstr(k) if isinstance(k, str) else k for k, _ in variables], [v for _, v in variables]),
                'functions': HashMapV([sstr(k) if isinstance(k, str) else k for k, _ in functions], [v for _, v in functions]),
                'without_builtin_functions': disabled if z3.is_expr(disabled) else z3.BoolVal(disabled)}
        return Adt('HashMapContext', 0, [vals[n] for n in names])

    def empty_context(self, with_builtins=False):
        return Adt('EmptyContextWithBuiltinFunctions' if with_builtins else 'EmptyContext', 0, [mkunit()])

    # ---- symbolic scalars
    def sym_i64(self, name):
        return z3.BitVec(name, 64)

    def sym_f64(self, name):
        return z3.FP(name, F64)

    def sym_bool(self, name):
        return z3.Bool(name)

    def sym_char(self, name):
        c = z3.BitVec(name, 32)
        return c, valid_scalar(c)

    # ---- running
    def new_exec(self):
        return Exec(self.p, overflow_checks=self.overflow_checks, **self.exec_kw)

    def run(self, body, args, pc=(), ex=None, setup=None):
        """run `body` (Body or name) on `args` (python values; wrap in refs yourself via st). Returns (ex, outcomes).
        args may be a callable(st) -> list of values, so that it can allocate cells in the state."""
        if isinstance(body, str):
            b = self.p.find_free(body)
            if b is None:
                raise Unsupported('no such function %s' % body)
            body = b
        if body.errors:
            raise Unsupported('function %s contains a MIR construct the front end does not understand: %s' % (body.sname, body.errors[0][:160]))
        ex = ex or self.new_exec()
        st = State()
        st.pc = list(pc)
        fr = Frame(body)
        if callable(args):
            args = args(st)
        if len(args) != len(body.args):
            raise Unsupported('arity mismatch for %s: %d vs %d' % (body.sname, len(args), len(body.args)))
        for i, v in zip(body.args, args):
            fr.locals[i] = st.new_cell(v)
        st.frames.append(fr)
        if setup:
            setup(ex, st)
        ex.bodies_used.add(body.sname)
        t0 = time.time()
        outs = ex.run(st)
        self.stats['exec_s'] += time.time() - t0
        self.stats['paths'] += len(outs)
        self.stats['feas_queries'] += ex.nq
        self.stats['solver_s'] += ex.tsolve
        self.stats['runs'] += 1
        self.bodies_used |= ex.bodies_used
        self.models_used |= ex.models_used
        return ex, outs

    def method(self, ty, name, trait=None):
        b = self.p.find_method(trait, ty, name) if trait else self.p.find_inherent(ty, name)
        if b is None:
            raise Unsupported('no method %s::%s' % (ty, name))
        return b


def ref_to(st, v, mut=False):
    c = st.new_cell(v)
    st.anchors.append(c)
    return Ref(c, [], mut=mut)


# ---------------------------------------------------------------- rendering (concrete values -> python)
def conc_int(v):
    t = z3.simplify(v.t)
    if not z3.is_bv_value(t):
        return None
    return t.as_signed_long() if v.signed else t.as_long()


def render_str(s, model=None):
    out = []
    for c in s.items:
        if isinstance(c, Int):
            t = z3.simplify(model.eval(c.t, model_completion=True) if model is not None else c.t)
            if not z3.is_bv_value(t):
                return None
            out.append(chr(t.as_long()))
        elif getattr(c, 'kind', None) == 'fmt_int' and model is not None and c.args and isinstance(c.args[0], Int):
            # the decimal rendering of an integer is determined by the model
            t = z3.simplify(model.eval(c.args[0].t, model_completion=True))
            out.append(str(t.as_signed_long() if c.args[0].signed else t.as_long()) if z3.is_bv_value(t) else '�<fmt_int>')
        else:
            out.append('�<%s>' % c.kind)
    return ''.join(out)


def eval_term(t, model):
    return z3.simplify(model.eval(t, model_completion=True) if model is not None else t)


def f64_bits(t, model=None):
    t = eval_term(t, model)
    if z3.is_fp_value(t):
        if t.isNaN():
            return 'nan'
        b = z3.simplify(z3.fpToIEEEBV(t))
        if z3.is_bv_value(b):
            return b.as_long()
    return None


def f64_py(t, model=None):
    b = f64_bits(t, model)
    if b is None:
        return None
    if b == 'nan':
        return float('nan')
    return struct.unpack('<d', struct.pack('<Q', b))[0]


def render_value(meta, v, model=None):
    """Value Adt -> canonical python tuple, e.g. ('Int', 3), ('Float', bits), ('Tuple', [...]); None if not concrete"""
    if not isinstance(v, Adt) or v.ty != 'Value':
        return ('?', repr(v))
    var = v.variant
    if not isinstance(var, int):
        var = eval_term(var, model).as_long()
    name = meta.enums['Value'][var][0]
    if name == 'Int':
        t = eval_term(v.fields[0].t, model)
        return ('Int', t.as_signed_long() if z3.is_bv_value(t) else None)
    if name == 'Float':
        return ('Float', f64_bits(v.fields[0].t, model))
    if name == 'Boolean':
        t = eval_term(v.fields[0], model)
        return ('Boolean', True if z3.is_true(t) else False if z3.is_false(t) else None)
    if name == 'String':
        return ('String', render_str(v.fields[0], model))
    if name == 'Tuple':
        return ('Tuple', [render_value(meta, x, model) for x in v.fields[0].items])
    return ('Empty',)


def error_name(meta, e):
    if isinstance(e, Adt) and e.ty == 'EvalexprError' and isinstance(e.variant, int):
        return meta.enums['EvalexprError'][e.variant][0]
    return repr(e)[:60]


def render_result(meta, r, model=None):
    """Result<Value, EvalexprError> -> ('Ok', value) | ('Err', name)"""
    if not (isinstance(r, Adt) and r.ty == 'Result'):
        return ('?', repr(r)[:80])
    if r.variant == 0:
        return ('Ok', render_value(meta, r.fields[0], model))
    return ('Err', error_name(meta, r.fields[0]))


def show_node(meta, n, model=None):
    if isinstance(n, Adt) and n.ty == 'Node':
        op = n.fields[0]
        v = op.variant
        if not isinstance(v, int):
            vv = eval_term(v, model)
            v = vv.as_long() if z3.is_bv_value(vv) else None
        name = meta.enums['Operator'][v][0] if v is not None else 'OP{%s}' % z3.simplify(op.variant)
        if op.fields:
            f = op.fields[0]
            if isinstance(f, SStr):
                name += ':' + str(render_str(f, model))
            elif isinstance(f, Adt) and f.ty == 'Value':
                name += ':' + repr(render_value(meta, f, model))
        kids = n.fields[1].items
        return name + ('(' + ' '.join(show_node(meta, k, model) for k in kids) + ')' if kids else '')
    return repr(n)


def node_shape(meta, n, model=None):
    """the runner's `shape` rendering of a (symbolic) Node under a model: Name[payload](child child ...)"""
    import replay
    op = n.fields[0]
    v = op.variant
    if not isinstance(v, int):
        v = eval_term(v, model).as_long()
    name = meta.enums['Operator'][v][0]
    s = name
    if name == 'Const':
        s += '[%s]' % replay.enc_value(tuple_py(render_value(meta, op.fields[0], model)))
    elif name in ('VariableIdentifierRead', 'VariableIdentifierWrite', 'FunctionIdentifier'):
        s += '[%s]' % replay.hx(render_str(op.fields[0], model))
    return s + '(' + ' '.join(node_shape(meta, c, model) for c in n.fields[1].items) + ')'


def tuple_py(v):
    if isinstance(v, (list, tuple)) and len(v) == 2 and v[0] == 'Tuple':
        return ('Tuple', [tuple_py(x) for x in v[1]])
    return tuple(v) if isinstance(v, list) else v


def validate_tree_path(C, res, S, o, model, rate_rng, rate):
    """engine validation for tree-builder paths: render the skeleton under a model of the path condition, build it natively and compare
    the outcome (tree shape or error name) with what the symbolic path predicts"""
    import replay
    if rate_rng.random() >= rate or model is None or o.kind != 'return':
        return
    src = S.render(model)
    out = replay.run_cases(replay.case_text('b', 'build', src), 'dev')['b']
    if o.value.variant == 0:
        pred = node_shape(C.meta, o.value.fields[0], model)
        nat = out.get('shape')
    else:
        pred = error_name(C.meta, o.value.fields[0])
        nat = (out.get('build') or ('?', '?'))[1]
    if pred == nat:
        res.traces_validated += 1
    else:
        res.inconclusive.append('engine validation: `%s` predicted %s, native %s' % (src, pred, nat or out.get('panic')))
