//! Native replay runner: reads cases (line protocol, see /verif/mirsym/replay.py), runs them against the
//! real crate built from /repo's working tree, prints canonical outcomes. Panics are caught and reported.
use evalexpr::*;
use std::io::{BufRead, Write};
use std::panic;
use std::sync::{Arc, Mutex};

fn unhex(s: &str) -> String {
    let bytes: Vec<u8> = (0..s.len() / 2)
        .map(|i| u8::from_str_radix(&s[2 * i..2 * i + 2], 16).unwrap())
        .collect();
    String::from_utf8(bytes).unwrap()
}
fn hex(s: &str) -> String {
    if s.is_empty() {
        return "-".to_string();
    }
    s.bytes().map(|b| format!("{:02x}", b)).collect()
}
fn unhexd(s: &str) -> String {
    if s == "-" {
        String::new()
    } else {
        unhex(s)
    }
}

// value encoding: I:<i64> F:<bits hex> B:0|1 S:<hex|-> E T(<v>,<v>,...)
fn enc(v: &Value) -> String {
    match v {
        Value::Int(i) => format!("I:{}", i),
        Value::Float(f) => format!("F:{:016x}", f.to_bits()),
        Value::Boolean(b) => format!("B:{}", if *b { 1 } else { 0 }),
        Value::String(s) => format!("S:{}", hex(s)),
        Value::Empty => "E".to_string(),
        Value::Tuple(t) => format!("T({})", t.iter().map(enc).collect::<Vec<_>>().join(",")),
    }
}
fn dec(s: &str) -> Value {
    let (v, rest) = dec_at(s);
    assert!(rest.is_empty(), "trailing {:?}", rest);
    v
}
fn dec_at(s: &str) -> (Value, &str) {
    if let Some(r) = s.strip_prefix("T(") {
        let mut items = vec![];
        let mut rest = r;
        loop {
            if let Some(r2) = rest.strip_prefix(')') {
                return (Value::Tuple(items), r2);
            }
            let (v, r2) = dec_at(rest);
            items.push(v);
            rest = r2.strip_prefix(',').unwrap_or(r2);
        }
    }
    let end = s.find(|c| c == ',' || c == ')').unwrap_or(s.len());
    let (tok, rest) = s.split_at(end);
    let v = if tok == "E" {
        Value::Empty
    } else if let Some(x) = tok.strip_prefix("I:") {
        Value::Int(x.parse().unwrap())
    } else if let Some(x) = tok.strip_prefix("F:") {
        Value::Float(f64::from_bits(u64::from_str_radix(x, 16).unwrap()))
    } else if let Some(x) = tok.strip_prefix("B:") {
        Value::Boolean(x == "1")
    } else if let Some(x) = tok.strip_prefix("S:") {
        Value::String(unhexd(x))
    } else {
        panic!("bad value {:?}", tok)
    };
    (v, rest)
}

fn err_name(e: &EvalexprError) -> String {
    let d = format!("{:?}", e);
    d.chars().take_while(|c| c.is_alphanumeric() || *c == '_').collect()
}

#[derive(Default, Clone)]
struct Case {
    id: String,
    entry: String,
    expr: String,
    ctx: String,
    vars: Vec<(String, Value)>,
    funcs: Vec<(String, String)>,
    disabled: bool,
    ops: Vec<String>,
}

type Log = Arc<Mutex<Vec<(String, Value)>>>;

fn make_fn(name: String, beh: String, log: Log) -> Function<DefaultNumericTypes> {
    Function::new(move |arg| {
        log.lock().unwrap().push((name.clone(), arg.clone()));
        if beh == "log" {
            Ok(arg.clone())
        } else if beh == "notfound_other" {
            Err(EvalexprError::FunctionIdentifierNotFound(format!("inner_{}", name)))
        } else if beh == "fail" {
            Err(EvalexprError::CustomMessage(format!("fail:{}", name)))
        } else if let Some(t) = beh.strip_prefix("expect:") {
            // a user function that demands a type of its argument: fails with the matching typed error, the argument as payload
            let r = match t {
                "float" => arg.as_float().map(|_| ()), "int" => arg.as_int().map(|_| ()), "number" => arg.as_number().map(|_| ()),
                "string" => arg.as_string().map(|_| ()), "boolean" => arg.as_boolean().map(|_| ()), "tuple" => arg.as_tuple().map(|_| ()),
                _ => arg.as_empty(),
            };
            r.map(|_| arg.clone())
        } else if let Some(v) = beh.strip_prefix("const:") {
            Ok(dec(v))
        } else {
            Err(EvalexprError::CustomMessage(format!("bad behaviour {}", beh)))
        }
    })
}

fn show<T: std::fmt::Debug>(out: &mut Vec<String>, tag: &str, r: Result<T, EvalexprError>, f: impl Fn(&T) -> String) {
    match r {
        Ok(v) => out.push(format!("{} ok {}", tag, f(&v))),
        Err(e) => {
            let payload = match &e {
                EvalexprError::ExpectedString { actual }
                | EvalexprError::ExpectedInt { actual }
                | EvalexprError::ExpectedFloat { actual }
                | EvalexprError::ExpectedNumber { actual }
                | EvalexprError::ExpectedNumberOrString { actual }
                | EvalexprError::ExpectedBoolean { actual }
                | EvalexprError::ExpectedTuple { actual }
                | EvalexprError::ExpectedEmpty { actual } => enc(actual),
                EvalexprError::VariableIdentifierNotFound(s) | EvalexprError::FunctionIdentifierNotFound(s) => format!("S:{}", hex(s)),
                _ => "-".to_string(),
            };
            // formatting the error must not panic either (C01)
            let disp = format!("{}", e);
            let _dbg = format!("{:?}", e);
            out.push(format!("{} err {} {} {}", tag, err_name(&e), payload, hex(&disp)))
        },
    }
}

fn fbits(f: &f64) -> String {
    format!("F:{:016x}", f.to_bits())
}

fn run_entry<C: Context<NumericTypes = DefaultNumericTypes> + ContextWithMutableVariables>(
    c: &Case,
    ctx: &mut C,
    out: &mut Vec<String>,
) {
    let e = c.expr.as_str();
    let tag = "result";
    match c.entry.as_str() {
        "eval_with_context" => show(out, tag, eval_with_context(e, &*ctx), enc),
        "eval_with_context_mut" => show(out, tag, eval_with_context_mut(e, ctx), enc),
        "eval_string_with_context" => show(out, tag, eval_string_with_context(e, &*ctx), |s| format!("S:{}", hex(s))),
        "eval_int_with_context" => show(out, tag, eval_int_with_context(e, &*ctx), |i| format!("I:{}", i)),
        "eval_float_with_context" => show(out, tag, eval_float_with_context(e, &*ctx), fbits),
        "eval_number_with_context" => show(out, tag, eval_number_with_context(e, &*ctx), fbits),
        "eval_boolean_with_context" => show(out, tag, eval_boolean_with_context(e, &*ctx), |b| format!("B:{}", *b as u8)),
        "eval_tuple_with_context" => show(out, tag, eval_tuple_with_context(e, &*ctx), |t| enc(&Value::Tuple(t.clone()))),
        "eval_empty_with_context" => show(out, tag, eval_empty_with_context(e, &*ctx), |_| "E".to_string()),
        "eval_string_with_context_mut" => show(out, tag, eval_string_with_context_mut(e, ctx), |s| format!("S:{}", hex(s))),
        "eval_int_with_context_mut" => show(out, tag, eval_int_with_context_mut(e, ctx), |i| format!("I:{}", i)),
        "eval_float_with_context_mut" => show(out, tag, eval_float_with_context_mut(e, ctx), fbits),
        "eval_number_with_context_mut" => show(out, tag, eval_number_with_context_mut(e, ctx), fbits),
        "eval_boolean_with_context_mut" => show(out, tag, eval_boolean_with_context_mut(e, ctx), |b| format!("B:{}", *b as u8)),
        "eval_tuple_with_context_mut" => show(out, tag, eval_tuple_with_context_mut(e, ctx), |t| enc(&Value::Tuple(t.clone()))),
        "eval_empty_with_context_mut" => show(out, tag, eval_empty_with_context_mut(e, ctx), |_| "E".to_string()),
        "optree_mut" | "optree_ro" => {
            // hand-built node (public API: operator_mut / children_mut): "<OperatorName> <k>", children are calls c0(0) .. c{k-1}(k-1)
            let mut it = e.split(' ');
            let opname = it.next().unwrap_or("");
            let k: usize = it.next().and_then(|x| x.parse().ok()).unwrap_or(0);
            let child_kind_full = it.next().unwrap_or("Const");
            // "VariableIdentifierRead:<mask>": child i reads the unbound variable `unbound<i>` where the mask has a 1 (a failing leaf child)
            let (child_kind, mask) = child_kind_full.split_once(':').unwrap_or((child_kind_full, ""));
            let op: Operator = match opname {
                "RootNode" => Operator::RootNode, "Add" => Operator::Add, "Sub" => Operator::Sub, "Neg" => Operator::Neg, "Mul" => Operator::Mul,
                "Div" => Operator::Div, "Mod" => Operator::Mod, "Exp" => Operator::Exp, "Eq" => Operator::Eq, "Neq" => Operator::Neq, "Gt" => Operator::Gt,
                "Lt" => Operator::Lt, "Geq" => Operator::Geq, "Leq" => Operator::Leq, "And" => Operator::And, "Or" => Operator::Or, "Not" => Operator::Not,
                "Assign" => Operator::Assign, "AddAssign" => Operator::AddAssign, "SubAssign" => Operator::SubAssign, "MulAssign" => Operator::MulAssign,
                "DivAssign" => Operator::DivAssign, "ModAssign" => Operator::ModAssign, "ExpAssign" => Operator::ExpAssign, "AndAssign" => Operator::AndAssign,
                "OrAssign" => Operator::OrAssign, "Tuple" => Operator::Tuple, "Chain" => Operator::Chain,
                "Const" => Operator::Const { value: Value::Int(7) },
                "VariableIdentifierWrite" => Operator::VariableIdentifierWrite { identifier: "x".to_string() },
                "VariableIdentifierRead" => Operator::VariableIdentifierRead { identifier: "x".to_string() },
                other if other.starts_with("FunctionIdentifier:") => Operator::FunctionIdentifier { identifier: other[19..].to_string() },
                _ => Operator::FunctionIdentifier { identifier: "x".to_string() },
            };
            let mut node = build_operator_tree::<DefaultNumericTypes>("0").unwrap();
            *node.operator_mut() = op;
            node.children_mut().clear();
            for i in 0..k {
                // the observable part of a child is the call c{i}({i}); its own top operator is set to the requested kind, keeping the call below it
                let call = build_operator_tree::<DefaultNumericTypes>(&format!("c{}({})", i, i)).unwrap();
                let mut child = build_operator_tree::<DefaultNumericTypes>("0").unwrap();
                child.children_mut().clear();
                match child_kind {
                    "Const" | "RootNode" => child = call,
                    "Literal" => {
                        // an identifier-free child: a constant, or (mask bit set) the failing constant expression 1/0
                        let failing = mask.as_bytes().get(i) == Some(&b'1');
                        let built = build_operator_tree::<DefaultNumericTypes>(&(if failing { "1/0".to_string() } else { format!("{}", i + 1) })).unwrap();
                        child = built.children()[0].clone();
                    },
                    "VariableIdentifierWrite" => {
                        *child.operator_mut() = Operator::VariableIdentifierWrite { identifier: format!("v{}", i) };
                    },
                    "TargetThenCall" => {
                        // the shape of an assignment: an (unbound) write target first, recording calls after it
                        if i == 0 {
                            *child.operator_mut() = Operator::VariableIdentifierWrite { identifier: "v0".to_string() };
                        } else {
                            child = call;
                        }
                    },
                    "VariableIdentifierRead" => {
                        let unbound = mask.as_bytes().get(i) == Some(&b'1');
                        *child.operator_mut() = Operator::VariableIdentifierRead { identifier: if unbound { format!("unbound{}", i) } else { "x".to_string() } };
                    },
                    "FunctionIdentifier" => child = call,
                    "Identical" => child = build_operator_tree::<DefaultNumericTypes>("same(7)").unwrap(),
                    "TupleArgs" => {
                        // the parenthesised argument list itself: RootNode(Tuple(..)), without the outer root of the whole source
                        let built = build_operator_tree::<DefaultNumericTypes>(&format!("(c{}a({}), c{}b({}), c{}c({}))", i, i, i, i, i, i)).unwrap();
                        child = built.children()[0].clone();
                    },
                    "Add" => {
                        *child.operator_mut() = Operator::Add;
                        child.children_mut().push(call);
                        child.children_mut().push(build_operator_tree::<DefaultNumericTypes>("0").unwrap());
                    },
                    _ => {
                        *child.operator_mut() = Operator::Assign;
                        child.children_mut().push(build_operator_tree::<DefaultNumericTypes>("w").map(|mut n| { n.children_mut().clear(); *n.operator_mut() = Operator::VariableIdentifierWrite { identifier: "w".to_string() }; n }).unwrap());
                        child.children_mut().push(call);
                    },
                }
                node.children_mut().push(child);
            }
            if c.entry == "optree_mut" {
                show(out, tag, node.eval_with_context_mut(ctx), enc)
            } else {
                show(out, tag, node.eval_with_context(&*ctx), enc)
            }
        },
        other => {
            // tree-level forms: "node:<method>"
            if let Some(m) = other.strip_prefix("node:") {
                match build_operator_tree::<DefaultNumericTypes>(e) {
                    Err(er) => show::<Value>(out, "build", Err(er), enc),
                    Ok(n) => match m {
                        "eval_with_context" => show(out, tag, n.eval_with_context(&*ctx), enc),
                        "eval_with_context_mut" => show(out, tag, n.eval_with_context_mut(ctx), enc),
                        "eval_string_with_context" => show(out, tag, n.eval_string_with_context(&*ctx), |s| format!("S:{}", hex(s))),
                        "eval_int_with_context" => show(out, tag, n.eval_int_with_context(&*ctx), |i| format!("I:{}", i)),
                        "eval_float_with_context" => show(out, tag, n.eval_float_with_context(&*ctx), fbits),
                        "eval_number_with_context" => show(out, tag, n.eval_number_with_context(&*ctx), fbits),
                        "eval_boolean_with_context" => show(out, tag, n.eval_boolean_with_context(&*ctx), |b| format!("B:{}", *b as u8)),
                        "eval_tuple_with_context" => show(out, tag, n.eval_tuple_with_context(&*ctx), |t| enc(&Value::Tuple(t.clone()))),
                        "eval_empty_with_context" => show(out, tag, n.eval_empty_with_context(&*ctx), |_| "E".to_string()),
                        "eval_string_with_context_mut" => show(out, tag, n.eval_string_with_context_mut(ctx), |s| format!("S:{}", hex(s))),
                        "eval_int_with_context_mut" => show(out, tag, n.eval_int_with_context_mut(ctx), |i| format!("I:{}", i)),
                        "eval_float_with_context_mut" => show(out, tag, n.eval_float_with_context_mut(ctx), fbits),
                        "eval_number_with_context_mut" => show(out, tag, n.eval_number_with_context_mut(ctx), fbits),
                        "eval_boolean_with_context_mut" => show(out, tag, n.eval_boolean_with_context_mut(ctx), |b| format!("B:{}", *b as u8)),
                        "eval_tuple_with_context_mut" => show(out, tag, n.eval_tuple_with_context_mut(ctx), |t| enc(&Value::Tuple(t.clone()))),
                        "eval_empty_with_context_mut" => show(out, tag, n.eval_empty_with_context_mut(ctx), |_| "E".to_string()),
                        _ => out.push(format!("badentry {}", other)),
                    },
                }
            } else {
                out.push(format!("badentry {}", other))
            }
        },
    }
}

fn run_nocontext(c: &Case, out: &mut Vec<String>) -> bool {
    let e = c.expr.as_str();
    let tag = "result";
    match c.entry.as_str() {
        "eval" => show(out, tag, eval(e), enc),
        "eval_string" => show(out, tag, eval_string(e), |s| format!("S:{}", hex(s))),
        "eval_int" => show(out, tag, eval_int(e), |i| format!("I:{}", i)),
        "eval_float" => show(out, tag, eval_float(e), fbits),
        "eval_number" => show(out, tag, eval_number(e), fbits),
        "eval_boolean" => show(out, tag, eval_boolean(e), |b| format!("B:{}", *b as u8)),
        "eval_tuple" => show(out, tag, eval_tuple(e), |t| enc(&Value::Tuple(t.clone()))),
        "eval_empty" => show(out, tag, eval_empty(e), |_| "E".to_string()),
        "build" => match build_operator_tree::<DefaultNumericTypes>(e) {
            Ok(n) => {
                out.push(format!("tree {}", hex(&format!("{:?}", n))));
                out.push(format!("treedisplay {}", hex(&format!("{}", n))));
                fn shape(n: &Node, s: &mut String) {
                    s.push_str(&err_like(&format!("{:?}", n.operator())));
                    match n.operator() {
                        Operator::Const { value } => s.push_str(&format!("[{}]", enc(value))),
                        Operator::VariableIdentifierRead { identifier }
                        | Operator::VariableIdentifierWrite { identifier }
                        | Operator::FunctionIdentifier { identifier } => s.push_str(&format!("[{}]", hex(identifier))),
                        _ => {},
                    }
                    s.push('(');
                    for (i, ch) in n.children().iter().enumerate() {
                        if i > 0 {
                            s.push(' ');
                        }
                        shape(ch, s);
                    }
                    s.push(')');
                }
                fn err_like(d: &str) -> String {
                    d.chars().take_while(|c| c.is_alphanumeric() || *c == '_').collect()
                }
                let mut s = String::new();
                shape(&n, &mut s);
                out.push(format!("shape {}", s));
                let l = |v: Vec<&str>| v.iter().map(|x| hex(x)).collect::<Vec<_>>().join(",");
                out.push(format!("iter_identifiers {}", l(n.iter_identifiers().collect())));
                out.push(format!("iter_variable_identifiers {}", l(n.iter_variable_identifiers().collect())));
                out.push(format!("iter_read_variable_identifiers {}", l(n.iter_read_variable_identifiers().collect())));
                out.push(format!("iter_write_variable_identifiers {}", l(n.iter_write_variable_identifiers().collect())));
                out.push(format!("iter_function_identifiers {}", l(n.iter_function_identifiers().collect())));
                let mut n2 = n.clone();
                let lm = |v: Vec<&mut String>| v.iter().map(|x| hex(x)).collect::<Vec<_>>().join(",");
                out.push(format!("iter_identifiers_mut {}", lm(n2.iter_identifiers_mut().collect())));
                out.push(format!("iter_variable_identifiers_mut {}", lm(n2.iter_variable_identifiers_mut().collect())));
                out.push(format!("iter_read_variable_identifiers_mut {}", lm(n2.iter_read_variable_identifiers_mut().collect())));
                out.push(format!("iter_write_variable_identifiers_mut {}", lm(n2.iter_write_variable_identifiers_mut().collect())));
                out.push(format!("iter_function_identifiers_mut {}", lm(n2.iter_function_identifiers_mut().collect())));
            },
            Err(er) => show::<Value>(out, "build", Err(er), enc),
        },
        other => {
            if let Some(m) = other.strip_prefix("node0:") {
                match build_operator_tree::<DefaultNumericTypes>(e) {
                    Err(er) => show::<Value>(out, "build", Err(er), enc),
                    Ok(n) => match m {
                        "eval" => show(out, tag, n.eval(), enc),
                        "eval_string" => show(out, tag, n.eval_string(), |s| format!("S:{}", hex(s))),
                        "eval_int" => show(out, tag, n.eval_int(), |i| format!("I:{}", i)),
                        "eval_float" => show(out, tag, n.eval_float(), fbits),
                        "eval_number" => show(out, tag, n.eval_number(), fbits),
                        "eval_boolean" => show(out, tag, n.eval_boolean(), |b| format!("B:{}", *b as u8)),
                        "eval_tuple" => show(out, tag, n.eval_tuple(), |t| enc(&Value::Tuple(t.clone()))),
                        "eval_empty" => show(out, tag, n.eval_empty(), |_| "E".to_string()),
                        _ => return false,
                    },
                }
            } else {
                return false;
            }
        },
    }
    true
}

/// entry `display`: build a value or an error from `op` lines (`what value|error:<Variant>`, `arg <encoded value>`) and format it
fn run_display(c: &Case, out: &mut Vec<String>) {
    let mut what = String::new();
    let mut args: Vec<Value> = vec![];
    for op in &c.ops {
        let (k, v) = op.split_once(' ').unwrap_or((op.as_str(), ""));
        match k {
            "what" => what = v.to_string(),
            "arg" => args.push(dec(v)),
            _ => {},
        }
    }
    let s = |i: usize| -> String { args[i].as_string().unwrap() };
    if what == "value" {
        out.push(format!("display {}", hex(&format!("{}", args[0]))));
        out.push(format!("debug {}", hex(&format!("{:?}", args[0]))));
        return;
    }
    let e: EvalexprError = match what.as_str() {
        "error:VariableIdentifierNotFound" => EvalexprError::VariableIdentifierNotFound(s(0)),
        "error:FunctionIdentifierNotFound" => EvalexprError::FunctionIdentifierNotFound(s(0)),
        "error:CustomMessage" => EvalexprError::CustomMessage(s(0)),
        "error:IllegalEscapeSequence" => EvalexprError::IllegalEscapeSequence(s(0)),
        "error:InvalidRegex" => EvalexprError::InvalidRegex { regex: s(0), message: s(1) },
        "error:ExpectedString" => EvalexprError::ExpectedString { actual: args[0].clone() },
        "error:ExpectedInt" => EvalexprError::ExpectedInt { actual: args[0].clone() },
        "error:ExpectedFloat" => EvalexprError::ExpectedFloat { actual: args[0].clone() },
        "error:ExpectedNumber" => EvalexprError::ExpectedNumber { actual: args[0].clone() },
        "error:ExpectedNumberOrString" => EvalexprError::ExpectedNumberOrString { actual: args[0].clone() },
        "error:ExpectedBoolean" => EvalexprError::ExpectedBoolean { actual: args[0].clone() },
        "error:ExpectedTuple" => EvalexprError::ExpectedTuple { actual: args[0].clone() },
        "error:ExpectedEmpty" => EvalexprError::ExpectedEmpty { actual: args[0].clone() },
        "error:TypeError" => EvalexprError::TypeError { expected: vec![ValueType::String], actual: args[0].clone() },
        "error:AdditionError" => EvalexprError::AdditionError { augend: args[0].clone(), addend: args[1].clone() },
        "error:SubtractionError" => EvalexprError::SubtractionError { minuend: args[0].clone(), subtrahend: args[1].clone() },
        "error:MultiplicationError" => EvalexprError::MultiplicationError { multiplicand: args[0].clone(), multiplier: args[1].clone() },
        "error:DivisionError" => EvalexprError::DivisionError { dividend: args[0].clone(), divisor: args[1].clone() },
        "error:ModulationError" => EvalexprError::ModulationError { dividend: args[0].clone(), divisor: args[1].clone() },
        "error:NegationError" => EvalexprError::NegationError { argument: args[0].clone() },
        _ => {
            out.push("unsupported".to_string());
            return;
        },
    };
    out.push(format!("display {}", hex(&format!("{}", e))));
    out.push(format!("debug {}", hex(&format!("{:?}", e))));
}

/// a user-defined context without variable storage that serves one read-only value for every identifier (C11: default set_value)
struct ServeCtx {
    value: Option<Value>,
}
impl Context for ServeCtx {
    type NumericTypes = DefaultNumericTypes;
    fn get_value(&self, _identifier: &str) -> Option<&Value> {
        self.value.as_ref()
    }
    fn call_function(&self, identifier: &str, _argument: &Value) -> Result<Value, EvalexprError> {
        Err(EvalexprError::FunctionIdentifierNotFound(identifier.to_string()))
    }
    fn are_builtin_functions_disabled(&self) -> bool {
        false
    }
    fn set_builtin_functions_disabled(&mut self, _disabled: bool) -> Result<(), EvalexprError> {
        Err(EvalexprError::BuiltinFunctionsCannotBeDisabled)
    }
}
impl ContextWithMutableVariables for ServeCtx {}

fn run_case(c: &Case) -> Vec<String> {
    let mut out = vec![];
    if c.entry == "serve_set_value" || c.entry == "serve_eval_mut" || c.entry == "serve_eval" {
        // vars[0] (optional) = the value served for every identifier; ops[0] = `arg <value>` written to x / expr evaluated
        let mut ctx = ServeCtx { value: c.vars.first().map(|(_, v)| v.clone()) };
        if c.entry == "serve_set_value" {
            let v = dec(c.ops[0].strip_prefix("arg ").unwrap());
            show(&mut out, "result", ctx.set_value("x".to_string(), v), |_| "E".to_string());
        } else if c.entry == "serve_eval_mut" {
            show(&mut out, "result", eval_with_context_mut(&c.expr, &mut ctx), enc);
        } else {
            show(&mut out, "result", eval_with_context(&c.expr, &ctx), enc);
        }
        return out;
    }
    if c.entry == "display" {
        run_display(c, &mut out);
        return out;
    }
    if run_nocontext(c, &mut out) {
        return out;
    }
    let log: Log = Arc::new(Mutex::new(vec![]));
    match c.ctx.as_str() {
        "empty" => {
            let ctx = EmptyContext::<DefaultNumericTypes>::default();
            run_ro(c, &ctx, &mut out);
        },
        "emptyb" => {
            let ctx = EmptyContextWithBuiltinFunctions::<DefaultNumericTypes>::default();
            run_ro(c, &ctx, &mut out);
        },
        _ => {
            let mut ctx = HashMapContext::<DefaultNumericTypes>::new();
            for (k, v) in &c.vars {
                if let Err(e) = ctx.set_value(k.clone(), v.clone()) {
                    out.push(format!("setup_err {}", err_name(&e)));
                }
            }
            for (k, b) in &c.funcs {
                ctx.set_function(k.clone(), make_fn(k.clone(), b.clone(), log.clone())).unwrap();
            }
            ctx.set_builtin_functions_disabled(c.disabled).unwrap();
            for op in &c.ops {
                apply_op(op, &mut ctx, &mut out, &log);
            }
            if !c.entry.is_empty() && c.entry != "none" {
                run_entry(c, &mut ctx, &mut out);
            }
            let mut vars: Vec<(String, Value)> = ctx.iter_variables().collect();
            vars.sort_by(|a, b| a.0.cmp(&b.0));
            for (k, v) in vars {
                out.push(format!("var {} {}", hex(&k), enc(&v)));
            }
            let mut names: Vec<String> = ctx.iter_variable_names().collect();
            names.sort();
            out.push(format!("names {}", names.iter().map(|x| hex(x)).collect::<Vec<_>>().join(",")));
            out.push(format!("disabled {}", ctx.are_builtin_functions_disabled() as u8));
        },
    }
    for (n, a) in log.lock().unwrap().iter() {
        out.push(format!("log {} {}", hex(n), enc(a)));
    }
    out
}

fn apply_op(op: &str, ctx: &mut HashMapContext<DefaultNumericTypes>, out: &mut Vec<String>, log: &Log) {
    let parts: Vec<&str> = op.split(' ').collect();
    match parts[0] {
        "set" => show(out, "op", ctx.set_value(unhexd(parts[1]), dec(parts[2])), |_| "E".to_string()),
        "get" => out.push(format!("op get {}", ctx.get_value(&unhexd(parts[1])).map(enc).unwrap_or("none".into()))),
        "clear_variables" => ctx.clear_variables(),
        "clear_functions" => ctx.clear_functions(),
        "clear" => ctx.clear(),
        "disable" => show(out, "op", ctx.set_builtin_functions_disabled(parts[1] == "1"), |_| "E".to_string()),
        "setfn" => show(out, "op", ctx.set_function(unhexd(parts[1]), make_fn(unhexd(parts[1]), parts[2].to_string(), log.clone())), |_| "E".to_string()),
        "eval" => show(out, "op", eval_with_context_mut(&unhexd(parts[1]), ctx), enc),
        "evalro" => show(out, "op", eval_with_context(&unhexd(parts[1]), &*ctx), enc),
        "call" => show(out, "op", ctx.call_function(&unhexd(parts[1]), &dec(parts[2])), enc),
        "clone" => {
            let c2 = ctx.clone();
            *ctx = c2;
        },
        "clonefrom" => {
            // b starts in a different state (another variable, opposite builtin switch), then b.clone_from(&ctx); b replaces ctx
            let mut b = HashMapContext::<DefaultNumericTypes>::new();
            b.set_value("zz__".to_string(), Value::Int(9)).unwrap();
            b.set_builtin_functions_disabled(!ctx.are_builtin_functions_disabled()).unwrap();
            b.clone_from(ctx);
            *ctx = b;
        },
        _ => out.push(format!("badop {}", op)),
    }
}

fn run_ro<C: Context<NumericTypes = DefaultNumericTypes>>(c: &Case, ctx: &C, out: &mut Vec<String>) {
    let e = c.expr.as_str();
    let tag = "result";
    match c.entry.as_str() {
        "eval_with_context" => show(out, tag, eval_with_context(e, ctx), enc),
        "eval_string_with_context" => show(out, tag, eval_string_with_context(e, ctx), |s| format!("S:{}", hex(s))),
        "eval_int_with_context" => show(out, tag, eval_int_with_context(e, ctx), |i| format!("I:{}", i)),
        "eval_float_with_context" => show(out, tag, eval_float_with_context(e, ctx), fbits),
        "eval_number_with_context" => show(out, tag, eval_number_with_context(e, ctx), fbits),
        "eval_boolean_with_context" => show(out, tag, eval_boolean_with_context(e, ctx), |b| format!("B:{}", *b as u8)),
        "eval_tuple_with_context" => show(out, tag, eval_tuple_with_context(e, ctx), |t| enc(&Value::Tuple(t.clone()))),
        "eval_empty_with_context" => show(out, tag, eval_empty_with_context(e, ctx), |_| "E".to_string()),
        other => out.push(format!("badentry {}", other)),
    }
    out.push(format!("disabled {}", ctx.are_builtin_functions_disabled() as u8));
}

/// model validation helpers (mirsym/validate_models.py): facts about std that mirsym models natively
fn charmodel() {
    let mut ws = vec![];
    let mut widths = [0u32; 5];
    let mut first = [0u32; 5];
    for cp in 0..=0x10ffffu32 {
        if let Some(c) = char::from_u32(cp) {
            if c.is_whitespace() {
                ws.push(cp);
            }
            let w = c.len_utf8();
            if widths[w] == 0 {
                first[w] = cp;
            }
            widths[w] += 1;
        }
    }
    println!("whitespace {}", ws.iter().map(|x| format!("{:x}", x)).collect::<Vec<_>>().join(","));
    println!("utf8first {:x} {:x} {:x} {:x}", first[1], first[2], first[3], first[4]);
}

fn parsetable() {
    let stdin = std::io::stdin();
    for line in stdin.lock().lines() {
        let line = line.unwrap();
        let s = unhexd(&line);
        let f = s.parse::<f64>();
        let i = s.parse::<i64>();
        let h = i64::from_str_radix(&s, 16);
        let b = s.parse::<bool>();
        println!(
            "{} {} {} {} {}",
            line,
            f.map(|x| format!("F:{:016x}", x.to_bits())).unwrap_or("-".into()),
            i.map(|x| x.to_string()).unwrap_or("-".into()),
            h.map(|x| x.to_string()).unwrap_or("-".into()),
            b.map(|x| (x as u8).to_string()).unwrap_or("-".into())
        );
    }
}

fn main() {
    let args: Vec<String> = std::env::args().collect();
    if args.len() > 1 && args[1] == "--charmodel" {
        return charmodel();
    }
    if args.len() > 1 && args[1] == "--parsetable" {
        return parsetable();
    }
    let input: Box<dyn BufRead> = if args.len() > 1 {
        Box::new(std::io::BufReader::new(std::fs::File::open(&args[1]).unwrap()))
    } else {
        Box::new(std::io::BufReader::new(std::io::stdin()))
    };
    let last_panic: Arc<Mutex<Option<String>>> = Arc::new(Mutex::new(None));
    let lp = last_panic.clone();
    panic::set_hook(Box::new(move |info| {
        let loc = info.location().map(|l| format!("{}:{}", l.file(), l.line())).unwrap_or_default();
        let msg = if let Some(s) = info.payload().downcast_ref::<&str>() {
            s.to_string()
        } else if let Some(s) = info.payload().downcast_ref::<String>() {
            s.clone()
        } else {
            "?".to_string()
        };
        *lp.lock().unwrap() = Some(format!("{} @ {}", msg, loc));
    }));
    let stdout = std::io::stdout();
    let mut o = stdout.lock();
    let mut cur = Case::default();
    for line in input.lines() {
        let line = line.unwrap();
        let (k, v) = match line.find(' ') {
            Some(i) => (&line[..i], &line[i + 1..]),
            None => (line.as_str(), ""),
        };
        match k {
            "case" => {
                cur = Case::default();
                cur.id = v.to_string();
                cur.ctx = "hashmap".to_string();
            },
            "entry" => cur.entry = v.to_string(),
            "expr" => cur.expr = unhexd(v),
            "ctx" => cur.ctx = v.to_string(),
            "var" => {
                let (n, val) = v.split_once(' ').unwrap();
                cur.vars.push((unhexd(n), dec(val)));
            },
            "func" => {
                let (n, b) = v.split_once(' ').unwrap();
                cur.funcs.push((unhexd(n), b.to_string()));
            },
            "disabled" => cur.disabled = v == "1",
            "op" => cur.ops.push(v.to_string()),
            "end" => {
                writeln!(o, "case {}", cur.id).unwrap();
                let c2 = cur.clone();
                *last_panic.lock().unwrap() = None;
                let r = panic::catch_unwind(move || run_case(&c2));
                match r {
                    Ok(lines) => {
                        for l in lines {
                            writeln!(o, "{}", l).unwrap();
                        }
                    },
                    Err(_) => {
                        let m = last_panic.lock().unwrap().clone().unwrap_or_default();
                        writeln!(o, "panic {}", hex(&m)).unwrap();
                    },
                }
                writeln!(o, "end").unwrap();
            },
            _ => {},
        }
    }
}
